#!/usr/bin/env python3
"""Engine B: symbolic execution of loop-free integer kernels from rustc's MIR dump
into SMT-LIB2 (mathematical integers with explicit wrap-around).

The MIR text is regenerated from /repo's current working tree on every run
(`dump_mir`). `Mir` indexes the function bodies; `Executor.call(fn, args)` executes
one function symbolically, inlining in-crate callees and a small whitelist of std
functions with hand-written semantics. Everything outside the supported subset
raises `Unsupported` - the caller reports the kernel as INCONCLUSIVE, never as pass.

Value model
  Int   : ('int', smt_term, (signed, bits))
  Bool  : ('bool', smt_term)
  Agg   : ('agg', variant_term_or_None, {field_index: value})   structs, tuples, enums
  Ref   : ('ref', value)     immutable borrow = snapshot (kernels never write through refs;
                              a write through a reference is Unsupported)
"""
import os
import re
import shutil
import subprocess
import tempfile


class Unsupported(Exception):
    pass


INT_TYPES = {
    "i8": (True, 8), "i16": (True, 16), "i32": (True, 32), "i64": (True, 64), "i128": (True, 128),
    "isize": (True, 64),
    "u8": (False, 8), "u16": (False, 16), "u32": (False, 32), "u64": (False, 64), "u128": (False, 128),
    "usize": (False, 64), "char": (False, 32),
}


def ty_range(ty):
    signed, bits = ty
    if signed:
        return -(1 << (bits - 1)), (1 << (bits - 1)) - 1
    return 0, (1 << bits) - 1


def lit(n):
    return str(n) if n >= 0 else "(- %d)" % (-n)


# --------------------------------------------------------------------------
# MIR dump + index
# --------------------------------------------------------------------------


def dump_mir(repo="/repo", log=None):
    """Copy /repo's working tree (sources only) to a scratch dir outside /repo and /verif,
    dump unoptimised MIR with the nightly toolchain, remove the scratch dir, return text."""
    scratch = tempfile.mkdtemp(prefix="verif-mir-")
    try:
        dst = os.path.join(scratch, "repo")
        os.makedirs(dst)
        shutil.copytree(os.path.join(repo, "src"), os.path.join(dst, "src"))
        for f in ("Cargo.toml", "Cargo.lock"):
            src = os.path.join(repo, f)
            if not os.path.exists(src):
                src = os.path.join("/repo", f)      # Cargo.lock is not tracked: scratch worktrees lack it
            shutil.copyfile(src, os.path.join(dst, f))
        env = dict(os.environ, CARGO_NET_OFFLINE="true", CARGO_TARGET_DIR=os.path.join(scratch, "target"))
        env.pop("RUSTFLAGS", None)
        p = subprocess.run(
            ["cargo", "+nightly", "rustc", "--offline", "--lib", "--", "-Zunpretty=mir",
             "-C", "debug-assertions=off", "-C", "overflow-checks=on", "--cfg", "allsorts_verif"],
            cwd=dst, env=env, stdout=subprocess.PIPE, stderr=subprocess.PIPE, timeout=900)
        if p.returncode != 0 or len(p.stdout) < 1000:
            raise Unsupported("MIR dump failed: " + p.stderr.decode(errors="replace")[-600:])
        return p.stdout.decode(errors="replace")
    finally:
        shutil.rmtree(scratch, ignore_errors=True)


class Fn:
    def __init__(self, name, params, ret, body_lines):
        self.name = name
        self.params = params      # [(local, type)]
        self.ret = ret
        self.locals = dict(params)
        self.blocks = {}
        cur = None
        for ln in body_lines:
            s = ln.strip()
            m = re.match(r"let (?:mut )?(_\d+): (.+);$", s)
            if m:
                self.locals[m.group(1)] = m.group(2)
                continue
            m = re.match(r"(bb\d+)(?: \(cleanup\))?: \{$", s)
            if m:
                cur = m.group(1)
                self.blocks[cur] = []
                continue
            if s == "}":
                cur = None
                continue
            if cur is not None and s and not s.startswith("//") and not s.startswith("debug ") and not s.startswith("scope "):
                self.blocks[cur].append(s)


def split_top(s, sep=","):
    """Split on `sep` at nesting depth 0 of () [] <> {} and outside string literals."""
    out, depth, cur, instr = [], 0, [], False
    i = 0
    while i < len(s):
        ch = s[i]
        if instr:
            cur.append(ch)
            if ch == "\\":
                cur.append(s[i + 1])
                i += 1
            elif ch == '"':
                instr = False
        elif ch == '"':
            instr = True
            cur.append(ch)
        elif ch in "([{<":
            depth += 1
            cur.append(ch)
        elif ch in ")]}>":
            # `->` is not a closing bracket
            if ch == ">" and cur and cur[-1] == "-":
                cur.append(ch)
            else:
                depth -= 1
                cur.append(ch)
        elif ch == sep and depth == 0:
            out.append("".join(cur).strip())
            cur = []
        else:
            cur.append(ch)
        i += 1
    if "".join(cur).strip():
        out.append("".join(cur).strip())
    return out


class Mir:
    def __init__(self, text, repo="/repo"):
        self.repo = repo
        self.fns = {}
        self.impls = {}     # (self_type, trait, method) -> fn name
        lines = text.split("\n")
        i = 0
        hdr = re.compile(r"^(?:const )?fn (.+?)\((.*)\) -> (.+) \{$")
        while i < len(lines):
            ln = lines[i]
            if ln.startswith("fn ") or ln.startswith("const fn "):
                m = hdr.match(ln)
                j = i + 1
                while j < len(lines) and lines[j] != "}":
                    j += 1
                if m:
                    name = m.group(1)
                    # the greedy-minimal name match may cut inside `<impl at ..>`: re-split at first "(_1" or "()"
                    full = ln[ln.index("fn ") + 3:]
                    k = full.find("(_1:")
                    if k < 0:
                        k = full.find("() ->")
                    name = full[:k]
                    rest = full[k:]
                    am = re.match(r"\((.*)\) -> (.+) \{$", rest)
                    params = []
                    if am and am.group(1).strip():
                        for prm in split_top(am.group(1)):
                            pm = re.match(r"(?:mut )?(_\d+): (.+)$", prm)
                            if pm:
                                params.append((pm.group(1), pm.group(2)))
                    ret = am.group(2) if am else ""
                    if name not in self.fns:   # first body wins (a const fn is printed twice)
                        self.fns[name] = Fn(name, params, ret, lines[i + 1:j])
                i = j
            i += 1
        self._index_impls()

    def _index_impls(self):
        src_cache = {}
        for name in self.fns:
            m = re.search(r"<impl at (src/[^:]+):(\d+):(\d+): (\d+):(\d+)>::(\w+)$", name)
            if not m:
                continue
            path, l1, c1, l2, c2, method = m.group(1), int(m.group(2)), int(m.group(3)), int(m.group(4)), int(m.group(5)), m.group(6)
            if path not in src_cache:
                try:
                    src_cache[path] = open(os.path.join(self.repo, path)).read().split("\n")
                except OSError:
                    src_cache[path] = None
            src = src_cache[path]
            if not src or l1 > len(src):
                continue
            header = src[l1 - 1][c1 - 1:] if l1 == l2 else src[l1 - 1][c1 - 1:]
            if l1 == l2:
                header = src[l1 - 1][c1 - 1:c2 - 1]
            hm = re.match(r"impl(?:<[^>]*>)?\s+(?:([\w:]+)(?:<([^>]*)>)?\s+for\s+)?([\w:]+)", header)
            if hm:
                trait = hm.group(1).split("::")[-1] if hm.group(1) else None
                targ = hm.group(2)
                selfty = hm.group(3).split("::")[-1]
                self.impls[(selfty, trait, targ, method)] = name

    def resolve(self, callee):
        """Map a callee as printed in MIR to the name of an in-crate function body."""
        c = callee.strip()
        m = re.match(r"^<(.+?) as ([\w:]+?)(?:<(.+)>)?>::(\w+)$", c)
        if m:
            selfty = m.group(1).split("::")[-1]
            trait = m.group(2).split("::")[-1]
            targ = m.group(3)
            method = m.group(4)
            key = (selfty, trait, targ, method)
            if key in self.impls:
                return self.impls[key]
            if targ is not None:
                targ2 = targ.split("::")[-1]
                for (s, t, a, me), fn in self.impls.items():
                    if s == selfty and t == trait and me == method and a is not None and a.split("::")[-1] == targ2:
                        return fn
            else:
                cands = [fn for (s, t, a, me), fn in self.impls.items() if s == selfty and t == trait and me == method]
                if len(cands) == 1:
                    return cands[0]
            return None
        # inherent method `Type::method` or free function `path::name`
        m = re.match(r"^([\w:]+)::(\w+)$", c)
        if m:
            selfty = m.group(1).split("::")[-1]
            cands = [fn for (s, t, a, me), fn in self.impls.items() if s == selfty and t is None and me == m.group(2)]
            if len(cands) == 1:
                return cands[0]
        short = c.split("::")[-1]
        if c in self.fns:
            return c
        cands = [n for n in self.fns if n == short or n.endswith("::" + short)]
        cands = [n for n in cands if "<impl at" not in n]
        if len(cands) == 1:
            return cands[0]
        return None

    def derives(self, type_name):
        """Derive list of `struct type_name` as written in the source (for the std whitelist)."""
        pat = re.compile(r"#\[derive\(([^)]*)\)\]\s*(?:#\[[^\]]*\]\s*)*pub struct %s\b" % re.escape(type_name))
        for root, _, files in os.walk(os.path.join(self.repo, "src")):
            for f in files:
                if f.endswith(".rs"):
                    txt = open(os.path.join(root, f)).read()
                    m = pat.search(txt)
                    if m:
                        return [d.strip() for d in m.group(1).split(",")]
        return []


# --------------------------------------------------------------------------
# symbolic executor
# --------------------------------------------------------------------------


class Executor:
    def __init__(self, mir):
        self.mir = mir
        self.decls = []          # SMT declarations / definitions, in order
        self.side = []           # side constraints (division lemmas), always asserted
        self.counter = 0
        self.functions_encoded = set()
        self.depth = 0
        self.stubs = []          # [(compiled regex on the callee text, fn(args) -> (value, panic_term), description)]
        self.stubs_used = set()

    # ---- terms ----
    def fresh(self, sort, hint="t"):
        self.counter += 1
        name = "%s_%d" % (hint, self.counter)
        self.decls.append("(declare-const %s %s)" % (name, sort))
        return name

    def define(self, sort, term, hint="v"):
        if re.match(r"^[\w.-]+$", term) or re.match(r"^\(- \d+\)$", term):
            return term
        self.counter += 1
        name = "%s_%d" % (hint, self.counter)
        self.decls.append("(define-fun %s () %s %s)" % (name, sort, term))
        return name

    def wrap(self, term, ty):
        # identity when the mathematical value fits (the common path, cheap for the solver to
        # split on), two's complement wrap-around otherwise
        lo, hi = ty_range(ty)
        mod = hi - lo + 1
        t = self.define("Int", term)
        if ty[0]:
            wrapped = "(- (mod (+ %s %d) %d) %d)" % (t, -lo, mod, -lo)
        else:
            wrapped = "(mod %s %d)" % (t, mod)
        return "(ite (and (<= %s %s) (<= %s %s)) %s %s)" % (lit(lo), t, t, lit(hi), t, wrapped)

    def in_range(self, term, ty):
        lo, hi = ty_range(ty)
        return "(and (<= %s %s) (<= %s %s))" % (lit(lo), term, term, lit(hi))

    def mk_int(self, term, ty):
        return ("int", self.define("Int", term), ty)

    def mk_bool(self, term):
        return ("bool", self.define("Bool", term, "b"))

    def ite(self, c, a, b):
        if a is None:
            return b
        if b is None:
            return a
        if a[0] == "ref" and b[0] == "ref":
            return ("ref", self.ite(c, a[1], b[1]))
        if a[0] == "int" and b[0] == "int":
            return ("int", self.define("Int", "(ite %s %s %s)" % (c, a[1], b[1])), a[2])
        if a[0] == "bool" and b[0] == "bool":
            return ("bool", self.define("Bool", "(ite %s %s %s)" % (c, a[1], b[1]), "b"))
        if a[0] == "agg" and b[0] == "agg":
            va = a[1] if a[1] is not None else "0"
            vb = b[1] if b[1] is not None else "0"
            var = None if (a[1] is None and b[1] is None) else self.define("Int", "(ite %s %s %s)" % (c, va, vb))
            fields = {}
            for k in set(a[2]) | set(b[2]):
                fa, fb = a[2].get(k), b[2].get(k)
                if fa is None:
                    fields[k] = fb
                elif fb is None:
                    fields[k] = fa
                else:
                    fields[k] = self.ite(c, fa, fb)
            return ("agg", var, fields)
        if a[0] in ("unit", "opaque") and b[0] in ("unit", "opaque"):
            return a
        # payloads of different enum variants share field slot 0 (Ok(usize) / Err(ParseError)):
        # a field-less constant on one side is only ever read under its own discriminant
        def trivial(v):
            return v[0] in ("unit", "opaque") or (v[0] == "agg" and not v[2])
        if trivial(a) and not trivial(b):
            return b
        if trivial(b) and not trivial(a):
            return a
        raise Unsupported("cannot merge values %s / %s" % (a[0], b[0]))

    # ---- parsing helpers ----
    def parse_const(self, text, fn):
        t = text.strip()
        if t in ("true", "false"):
            return ("bool", t)
        m = re.match(r"^(-?\d+)_(\w+)$", t)
        if m and m.group(2) in INT_TYPES:
            return ("int", lit(int(m.group(1))), INT_TYPES[m.group(2)])
        m = re.match(r"^(\w+)::(MAX|MIN)$", t)
        if m and m.group(1) in INT_TYPES:
            lo, hi = ty_range(INT_TYPES[m.group(1)])
            return ("int", lit(hi if m.group(2) == "MAX" else lo), INT_TYPES[m.group(1)])
        if t == "()":
            return ("unit",)
        # enum unit variants such as `ParseError::BadIndex` / `Option::<u8>::None`
        m = re.match(r"^([\w:<>, ]+)::(\w+)$", t)
        if m:
            return ("agg", self.variant_index(m.group(1), m.group(2)), {})
        raise Unsupported("constant %r" % t)

    VARIANTS = {"None": 0, "Some": 1, "Ok": 0, "Err": 1}

    def variant_index(self, enum, variant):
        if variant in self.VARIANTS:
            return str(self.VARIANTS[variant])
        # other enums: a stable per-name index (only equality between variants of one enum is used)
        return str(1000 + (sum(ord(c) * (i + 1) for i, c in enumerate(variant)) % 100000))

    def parse_place(self, text):
        """-> (local, [projection...]) with projections ('deref',) ('field', idx) ('downcast', name)"""
        t = text.strip()
        if re.match(r"^_\d+$", t):
            return t, []
        if t.startswith("(*") and t.endswith(")"):
            base, proj = self.parse_place(t[2:-1])
            return base, proj + [("deref",)]
        if t.startswith("(") and t.endswith(")"):
            inner = t[1:-1]
            # (place.N: T)
            depth = 0
            for idx in range(len(inner) - 1, -1, -1):
                ch = inner[idx]
                if ch in ")>]":
                    depth += 1
                elif ch in "(<[":
                    depth -= 1
                elif ch == ":" and depth == 0 and inner[idx + 1:idx + 2] == " ":
                    left = inner[:idx]
                    fm = re.match(r"^(.*)\.(\d+)$", left)
                    if fm:
                        base, proj = self.parse_place(fm.group(1))
                        return base, proj + [("field", int(fm.group(2)))]
                    break
            m = re.match(r"^(.*) as (\w+)$", inner)
            if m:
                base, proj = self.parse_place(m.group(1))
                return base, proj + [("downcast", m.group(2))]
        raise Unsupported("place %r" % t)

    def read_place(self, env, text):
        base, proj = self.parse_place(text)
        if base not in env:
            raise Unsupported("read of unset local %s" % base)
        v = env[base]
        for p in proj:
            if p[0] == "deref":
                if v[0] != "ref":
                    raise Unsupported("deref of non-reference")
                v = v[1]
            elif p[0] == "field":
                if v[0] != "agg" or p[1] not in v[2]:
                    raise Unsupported("field %d of %s" % (p[1], v[0]))
                v = v[2][p[1]]
            elif p[0] == "downcast":
                pass
        return v

    def write_place(self, env, text, value):
        base, proj = self.parse_place(text)
        if not proj:
            env[base] = value
            return
        if any(p[0] == "deref" for p in proj):
            raise Unsupported("write through a reference")
        # functional update of a field path
        def upd(v, path):
            if not path:
                return value
            p = path[0]
            if p[0] == "downcast":
                return upd(v, path[1:])
            if v is None:
                v = ("agg", None, {})
            if v[0] != "agg":
                raise Unsupported("field write into %s" % v[0])
            f = dict(v[2])
            f[p[1]] = upd(f.get(p[1]), path[1:])
            return ("agg", v[1], f)
        env[base] = upd(env.get(base), proj)

    def operand(self, env, text, fn):
        t = text.strip()
        if t.startswith("copy ") or t.startswith("move "):
            return self.read_place(env, t[5:])
        if t.startswith("const "):
            return self.parse_const(t[6:], fn)
        raise Unsupported("operand %r" % t)

    # ---- rvalues ----
    def binop(self, op, a, b):
        if op in ("Eq", "Ne", "Lt", "Le", "Gt", "Ge"):
            if a[0] == "bool" and b[0] == "bool":
                if op == "Eq":
                    return self.mk_bool("(= %s %s)" % (a[1], b[1]))
                if op == "Ne":
                    return self.mk_bool("(not (= %s %s))" % (a[1], b[1]))
            if a[0] != "int" or b[0] != "int":
                raise Unsupported("comparison of %s" % a[0])
            sym = {"Eq": "=", "Lt": "<", "Le": "<=", "Gt": ">", "Ge": ">="}.get(op)
            if op == "Ne":
                return self.mk_bool("(not (= %s %s))" % (a[1], b[1]))
            return self.mk_bool("(%s %s %s)" % (sym, a[1], b[1]))
        if a[0] == "bool" and b[0] == "bool":
            if op == "BitAnd":
                return self.mk_bool("(and %s %s)" % (a[1], b[1]))
            if op == "BitOr":
                return self.mk_bool("(or %s %s)" % (a[1], b[1]))
            if op == "BitXor":
                return self.mk_bool("(xor %s %s)" % (a[1], b[1]))
        if a[0] != "int" or b[0] != "int":
            raise Unsupported("binop %s on %s" % (op, a[0]))
        ty = a[2]
        if op in ("Add", "Sub", "Mul", "AddUnchecked", "SubUnchecked", "MulUnchecked"):
            sym = {"A": "+", "S": "-", "M": "*"}[op[0]]
            return self.mk_int(self.wrap("(%s %s %s)" % (sym, a[1], b[1]), ty), ty)
        if op in ("AddWithOverflow", "SubWithOverflow", "MulWithOverflow"):
            sym = {"A": "+", "S": "-", "M": "*"}[op[0]]
            raw = self.define("Int", "(%s %s %s)" % (sym, a[1], b[1]))
            val = self.mk_int(self.wrap(raw, ty), ty)
            ovf = self.mk_bool("(not %s)" % self.in_range(raw, ty))
            return ("agg", None, {0: val, 1: ovf})
        if op in ("Shl", "Shr", "ShlUnchecked", "ShrUnchecked"):
            cm = re.match(r"^\(?-? ?(\d+)\)?$", b[1])
            if not cm:
                # symbolic amount (MIR asserts amount < bits just before): 2^n as an ite chain
                if not op.startswith("Shl"):
                    raise Unsupported("right shift by a non-constant amount")
                pow2 = "0"
                for k in range(ty[1] - 1, -1, -1):
                    pow2 = "(ite (= %s %d) %d %s)" % (b[1], k, 1 << k, pow2)
                return self.mk_int(self.wrap("(* %s %s)" % (a[1], self.define("Int", pow2)), ty), ty)
            k = int(cm.group(1))
            if op.startswith("Shl"):
                return self.mk_int(self.wrap("(* %s %d)" % (a[1], 1 << k), ty), ty)
            # arithmetic shift right == floor division (SMT `div` with a positive divisor is floor)
            return self.mk_int("(div %s %d)" % (a[1], 1 << k), ty)
        if op in ("Div", "Rem"):
            q = self.fresh("Int", "q")
            r = self.fresh("Int", "r")
            # truncating division lemma, guarded by b != 0
            self.side.append(
                "(=> (not (= %s 0)) (and (= %s (+ (* %s %s) %s)) (< (abs %s) (abs %s)) "
                "(or (= %s 0) (= (>= %s 0) (>= %s 0)))))" % (b[1], a[1], q, b[1], r, r, b[1], r, r, a[1]))
            return self.mk_int(self.wrap(q if op == "Div" else r, ty), ty)
        if op == "BitAnd":
            cm = re.match(r"^(\d+)$", b[1])
            if cm and ((int(cm.group(1)) + 1) & int(cm.group(1))) == 0:
                # x & (2^k - 1) == x mod 2^k on the two's complement pattern
                k = int(cm.group(1)) + 1
                return self.mk_int("(mod %s %d)" % (a[1], k), ty)
            raise Unsupported("BitAnd with a non-mask operand")
        raise Unsupported("binop %s" % op)

    def cast(self, v, target):
        if target == "bool":
            raise Unsupported("cast to bool")
        if target not in INT_TYPES:
            raise Unsupported("cast to %s" % target)
        ty = INT_TYPES[target]
        if v[0] == "bool":
            return self.mk_int("(ite %s 1 0)" % v[1], ty)
        if v[0] != "int":
            raise Unsupported("cast of %s" % v[0])
        lo, hi = ty_range(ty)
        slo, shi = ty_range(v[2])
        if slo >= lo and shi <= hi:
            return ("int", v[1], ty)
        return self.mk_int(self.wrap(v[1], ty), ty)

    def rvalue(self, env, text, fn):
        t = text.strip()
        if t.startswith("&"):
            if t.startswith("&mut ") or t.startswith("&raw "):
                raise Unsupported("mutable or raw borrow")
            return ("ref", self.read_place(env, t[1:].strip()))
        m = re.match(r"^(\w+)\((.*)\)$", t)
        if m and m.group(1) in ("Eq", "Ne", "Lt", "Le", "Gt", "Ge", "Add", "Sub", "Mul", "Div", "Rem", "Shl", "Shr",
                                "BitAnd", "BitOr", "BitXor", "AddWithOverflow", "SubWithOverflow", "MulWithOverflow",
                                "AddUnchecked", "SubUnchecked", "MulUnchecked", "ShlUnchecked", "ShrUnchecked"):
            a, b = split_top(m.group(2))
            return self.binop(m.group(1), self.operand(env, a, fn), self.operand(env, b, fn))
        if m and m.group(1) in ("Neg", "Not"):
            v = self.operand(env, m.group(2), fn)
            if m.group(1) == "Not":
                if v[0] == "bool":
                    return self.mk_bool("(not %s)" % v[1])
                raise Unsupported("bitwise Not on integer")
            return self.mk_int(self.wrap("(- %s)" % v[1], v[2]), v[2])
        if m and m.group(1) == "discriminant":
            v = self.read_place(env, m.group(2))
            if v[0] != "agg" or v[1] is None:
                raise Unsupported("discriminant of a non-enum")
            return ("int", v[1], INT_TYPES["isize"])
        m = re.match(r"^(.*) as (\w+) \((\w+)\)$", t)
        if m:
            if m.group(3) not in ("IntToInt",):
                raise Unsupported("cast kind %s" % m.group(3))
            return self.cast(self.operand(env, m.group(1), fn), m.group(2))
        if t.startswith("copy ") or t.startswith("move ") or t.startswith("const "):
            return self.operand(env, t, fn)
        # tuple
        if t.startswith("(") and t.endswith(")"):
            parts = split_top(t[1:-1])
            return ("agg", None, {i: self.operand(env, p, fn) for i, p in enumerate(parts)})
        # ADT constructor `Path(ops)` / `Path::<T>::Variant(ops)`: the operand list is the last
        # balanced (...) group (the path may contain `()` inside its generics)
        m = None
        if t.endswith(")"):
            depth, open_at = 0, -1
            for idx in range(len(t) - 1, -1, -1):
                if t[idx] == ")":
                    depth += 1
                elif t[idx] == "(":
                    depth -= 1
                    if depth == 0:
                        open_at = idx
                        break
            if open_at > 0:
                prefix = t[:open_at]
                vm = re.match(r"^(.*?)(?:::(\w+))?$", prefix)
                m = (vm.group(1), vm.group(2), t[open_at + 1:-1])
        if m:
            ops = split_top(m[2]) if m[2].strip() else []
            name = m[0]
            variant = m[1]
            var = None
            if variant is not None and variant[0].isupper():
                var = self.variant_index(name, variant)
            elif variant is not None:
                raise Unsupported("call in rvalue position %r" % t)
            return ("agg", var, {i: self.operand(env, p, fn) for i, p in enumerate(ops)})
        m = re.match(r"^([\w:<>, ']+)::(\w+)$", t)
        if m:
            return ("agg", self.variant_index(m.group(1), m.group(2)), {})
        raise Unsupported("rvalue %r" % t)

    # ---- std whitelist ----
    def std_call(self, callee, args):
        c = callee.replace(" ", "")
        m = re.match(r"^<(\w+)asFrom<(\w+)>>::from$", c)
        if m and m.group(1) in INT_TYPES and m.group(2) in INT_TYPES:
            return self.cast(args[0], m.group(1)), "false"
        m = re.match(r"^core::num::<impl(\w+)>::(\w+)$", c)
        if m and m.group(1) in INT_TYPES:
            ty = INT_TYPES[m.group(1)]
            name = m.group(2)
            a = args[0]
            if name in ("wrapping_add", "wrapping_sub", "wrapping_mul"):
                sym = {"wrapping_add": "+", "wrapping_sub": "-", "wrapping_mul": "*"}[name]
                return self.mk_int(self.wrap("(%s %s %s)" % (sym, a[1], args[1][1]), ty), ty), "false"
            if name == "saturating_sub":
                lo, hi = ty_range(ty)
                d = "(- %s %s)" % (a[1], args[1][1])
                return self.mk_int("(ite (< %s %s) %s (ite (> %s %s) %s %s))" % (d, lit(lo), lit(lo), d, lit(hi), lit(hi), d), ty), "false"
            if name == "abs":
                lo, _ = ty_range(ty)
                return self.mk_int("(abs %s)" % a[1], ty), "(= %s %s)" % (a[1], lit(lo))
            if name == "leading_zeros" and not ty[0]:
                bits = ty[1]
                term = str(bits)
                for k in range(bits):
                    term = "(ite (>= %s %d) %d %s)" % (a[1], 1 << k, bits - 1 - k, term) if k == 0 else \
                        "(ite (>= %s %d) %d %s)" % (a[1], 1 << k, bits - 1 - k, term)
                # build properly: largest k with x >= 2^k decides
                term = str(bits)
                for k in range(bits):
                    term = "(ite (>= %s %d) %d %s)" % (a[1], 1 << k, bits - 1 - k, term)
                return self.mk_int(term, INT_TYPES["u32"]), "false"
            if name == "checked_add":
                raw = "(+ %s %s)" % (a[1], args[1][1])
                ok = self.in_range(raw, ty)
                return ("agg", self.define("Int", "(ite %s 1 0)" % ok), {0: self.mk_int(raw, ty)}), "false"
        m = re.match(r"^<(\w+)as(?:std::convert::)?TryFrom<(\w+)>>::try_from$", c)
        if m and m.group(1) in INT_TYPES and m.group(2) in INT_TYPES:
            ty = INT_TYPES[m.group(1)]
            ok = self.in_range(args[0][1], ty)
            return ("agg", self.define("Int", "(ite %s 0 1)" % ok), {0: ("int", args[0][1], ty)}), "false"
        if re.match(r"^<Result<.*>as(?:std::ops::)?Try>::branch$", c):
            # Ok(v) -> Continue(v) (variant 0), Err(e) -> Break(Err(e)) (variant 1); payload kept as is
            r = args[0]
            if r[0] != "agg" or r[1] is None:
                raise Unsupported("Try::branch on a non-Result")
            return ("agg", r[1], dict(r[2])), "false"
        if re.search(r"FromResidual<.*>>::from_residual$", c):
            return ("agg", "1", {}), "false"
        # derived comparisons on single-field integer newtypes
        m = re.match(r"^<(\w+)as(PartialOrd|PartialEq|Ord)>::(lt|le|gt|ge|eq|ne|clamp|max|min)$", c)
        if m:
            tname, trait, method = m.group(1), m.group(2), m.group(3)
            derives = self.mir.derives(tname)
            if trait not in derives:
                raise Unsupported("%s does not derive %s (custom impl is not in the whitelist)" % (tname, trait))
            def f0(v):
                while v[0] == "ref":
                    v = v[1]
                if v[0] != "agg" or set(v[2]) != {0} or v[2][0][0] != "int":
                    raise Unsupported("derived comparison on a non-newtype")
                return v[2][0]
            a, b = f0(args[0]), f0(args[1])
            if method in ("lt", "le", "gt", "ge", "eq", "ne"):
                sym = {"lt": "<", "le": "<=", "gt": ">", "ge": ">=", "eq": "="}.get(method)
                if method == "ne":
                    return self.mk_bool("(not (= %s %s))" % (a[1], b[1])), "false"
                return self.mk_bool("(%s %s %s)" % (sym, a[1], b[1])), "false"
            if method == "clamp":
                hi = f0(args[2])
                # std: assert!(min <= max); if self < min { min } else if self > max { max } else { self }
                val = self.mk_int("(ite (< %s %s) %s (ite (> %s %s) %s %s))" % (a[1], b[1], b[1], a[1], hi[1], hi[1], a[1]), a[2])
                return ("agg", None, {0: val}), "(> %s %s)" % (b[1], hi[1])
            if method in ("max", "min"):
                sym = ">=" if method == "max" else "<="
                val = self.mk_int("(ite (%s %s %s) %s %s)" % (sym, b[1], a[1], b[1], a[1]), a[2])
                return ("agg", None, {0: val}), "false"
        raise Unsupported("call to %s" % callee)

    # ---- function execution ----
    def call(self, fname, args):
        """Execute in-crate function `fname` on argument values. Returns (value, panic_term)."""
        fn = self.mir.fns.get(fname)
        if fn is None:
            raise Unsupported("no MIR body for %s" % fname)
        if self.depth > 12:
            raise Unsupported("call depth")
        if len(args) != len(fn.params):
            raise Unsupported("arity of %s" % fname)
        self.functions_encoded.add(fname)
        self.depth += 1
        try:
            env = {p[0]: a for p, a in zip(fn.params, args)}
            return self.exec_block(fn, "bb0", env, frozenset())
        finally:
            self.depth -= 1

    def exec_block(self, fn, bb, env, visiting):
        if bb in visiting:
            raise Unsupported("loop (back-edge to %s in %s)" % (bb, fn.name))
        visiting = visiting | {bb}
        stmts = fn.blocks.get(bb)
        if stmts is None:
            raise Unsupported("missing block %s" % bb)
        env = dict(env)
        for s in stmts:
            s = s.rstrip(";")
            if s.startswith("StorageLive") or s.startswith("StorageDead") or s.startswith("FakeRead") or s.startswith("nop") \
                    or s.startswith("PlaceMention") or s.startswith("AscribeUserType") or s.startswith("Retag"):
                continue
            if s == "return":
                return env.get("_0", ("unit",)), "false"
            if s == "unreachable":
                # statically unreachable by construction of the enum match; treat as panic so that a
                # reachable `unreachable` shows up in the no-panic obligation
                return None, "true"
            m = re.match(r"^goto -> (bb\d+)$", s)
            if m:
                return self.exec_block(fn, m.group(1), env, visiting)
            m = re.match(r"^switchInt\((.*)\) -> \[(.*)\]$", s)
            if m:
                v = self.operand(env, m.group(1), fn)
                targets = [x.strip() for x in m.group(2).split(",")]
                result, panic = None, None
                conds = []
                branches = []
                for tgt in targets:
                    key, dest = [x.strip() for x in tgt.split(":")]
                    if key == "otherwise":
                        cond = "(and %s)" % " ".join(["(not %s)" % c for c in conds] + ["true"])
                    elif v[0] == "bool":
                        cond = "(not %s)" % v[1] if key == "0" else v[1]
                        conds.append(cond)
                    else:
                        cond = "(= %s %s)" % (v[1], lit(int(key)))
                        conds.append(cond)
                    branches.append((self.define("Bool", cond, "c"), dest))
                for cond, dest in reversed(branches):
                    r, p = self.exec_block(fn, dest, env, visiting)
                    if panic is None:
                        result, panic = r, p
                    else:
                        result = self.ite(cond, r, result)
                        panic = self.define("Bool", "(ite %s %s %s)" % (cond, p, panic), "p")
                return result, panic
            m = re.match(r"^assert\((!?)(.*?), \"", s)
            if m:
                dest = re.search(r"-> \[success: (bb\d+)", s).group(1)
                v = self.operand(env, m.group(2), fn)
                ok = "(not %s)" % v[1] if m.group(1) else v[1]
                r, p = self.exec_block(fn, dest, env, visiting)
                return r, self.define("Bool", "(or (not %s) %s)" % (ok, p), "p")
            m = None
            cm = re.search(r"\) -> \[return: (bb\d+), unwind", s)
            if cm and " = " in s:
                # the argument list is the last balanced (...) group before ` -> [return:`
                close = cm.start()
                depth, open_at = 0, -1
                for idx in range(close, -1, -1):
                    if s[idx] == ")":
                        depth += 1
                    elif s[idx] == "(":
                        depth -= 1
                        if depth == 0:
                            open_at = idx
                            break
                eq = s.index(" = ")
                if open_at > eq:
                    m = (s[:eq], s[eq + 3:open_at].strip(), s[open_at + 1:close], cm.group(1))
            if m and not re.match(r"^(Eq|Ne|Lt|Le|Gt|Ge|Add|Sub|Mul|Div|Rem|Shl|Shr|BitAnd|BitOr|BitXor|\w+WithOverflow|\w+Unchecked|Neg|Not|discriminant)$", m[1]):
                dest_place, callee, argtxt, nxt = m
                args = [self.operand(env, a, fn) for a in split_top(argtxt)] if argtxt.strip() else []
                stub = next((st for st in self.stubs if st[0].search(callee)), None)
                target = None if stub else self.mir.resolve(callee)
                if stub is not None:
                    self.stubs_used.add(stub[2])
                    val, pan = stub[1](args)
                elif target is not None:
                    val, pan = self.call(target, args)
                else:
                    val, pan = self.std_call(callee, args)
                if val is not None:
                    self.write_place(env, dest_place, val)
                r, p = self.exec_block(fn, nxt, env, visiting)
                return r, self.define("Bool", "(or %s %s)" % (pan, p), "p")
            m = re.match(r"^(.+?) = (.+)$", s)
            if m:
                self.write_place(env, m.group(1), self.rvalue(env, m.group(2), fn))
                continue
            raise Unsupported("statement %r" % s)
        raise Unsupported("block %s of %s falls through" % (bb, fn.name))

    # ---- script assembly ----
    def script(self, input_decls, assumptions, goal):
        """SMT-LIB2 text asking whether `assumptions and goal` is satisfiable."""
        out = ["(set-logic ALL)", "(set-option :produce-models true)"]
        out += input_decls
        out += self.decls
        for s in self.side:
            out.append("(assert %s)" % s)
        for a in assumptions:
            out.append("(assert %s)" % a)
        out.append("(assert %s)" % goal)
        out.append("(check-sat)")
        return "\n".join(out) + "\n"
