#!/usr/bin/env python3
"""Engine B driver: per-property kernel obligations decided with cvc5 + z3 5.1 over the
MIR->SMT encoding of lib/mir2smt.py. See DESIGN.md section 2.

Verdict rule: a query is decided when at least one solver answers sat/unsat and no
solver gives the opposite answer. `(error` in an answering solver's output voids that
answer. A `sat` answer to a proof query is a counterexample: it is replayed natively
through /verif/replay (the real code, built with --cfg allsorts_verif) and only a
model whose native run violates the obligation's Python predicate is a VIOLATION.

Translator validation (every run): the encoded kernel is evaluated by the solver at
concrete inputs and compared with the native result; any mismatch marks the
machinery as broken (exit 2), never allsorts.
"""
import json
import os
import random
import re
import subprocess
import time
from concurrent.futures import ThreadPoolExecutor

import mir2smt
from mir2smt import Unsupported, lit

VERIF = os.path.dirname(os.path.dirname(os.path.abspath(__file__)))
REPO = os.environ.get("VERIF_REPO", "/repo")
ALT = REPO != "/repo"
BUILD = os.environ.get("VERIF_BUILD") or os.path.join(VERIF, ".build")
REPLAYS = os.path.join(BUILD, "replays") if ALT else os.path.join(VERIF, "replays")
REPLAY_SRC = os.path.join(VERIF, "replay")
REPLAY_CRATE = os.path.join(BUILD, "replay-crate") if ALT else REPLAY_SRC

SOLVERS = [
    ("cvc5", lambda f, t: ["cvc5", "--lang", "smt2", "--tlimit=%d" % (t * 1000), f]),
    ("z3-new", lambda f, t: ["z3-new", "-T:%d" % t, f]),
]

I32 = (True, 32)
MIN32, MAX32 = -(1 << 31), (1 << 31) - 1


# --------------------------------------------------------------------------
# native side
# --------------------------------------------------------------------------

_native_bin = None


def native_binary(log):
    global _native_bin
    if _native_bin:
        return _native_bin
    env = dict(os.environ, CARGO_NET_OFFLINE="true", RUSTFLAGS="--cfg allsorts_verif",
               CARGO_TARGET_DIR=os.path.join(BUILD, "replay-target"))
    import shutil
    if ALT:
        if os.path.exists(REPLAY_CRATE):
            shutil.rmtree(REPLAY_CRATE)
        os.makedirs(REPLAY_CRATE)
        shutil.copytree(os.path.join(REPLAY_SRC, "src"), os.path.join(REPLAY_CRATE, "src"))
        toml = open(os.path.join(REPLAY_SRC, "Cargo.toml")).read().replace('path = "/repo"', 'path = "%s"' % REPO)
        open(os.path.join(REPLAY_CRATE, "Cargo.toml"), "w").write(toml)
    try:
        shutil.copyfile(os.path.join(REPO, "Cargo.lock"), os.path.join(REPLAY_CRATE, "Cargo.lock"))
    except OSError:
        pass
    p = subprocess.run(["cargo", "build", "--offline"], cwd=REPLAY_CRATE, env=env,
                       stdout=subprocess.PIPE, stderr=subprocess.STDOUT, timeout=1800)
    if p.returncode != 0:
        log("MACHINERY: replay crate does not build: " + p.stdout.decode(errors="replace")[-800:])
        return None
    _native_bin = os.path.join(BUILD, "replay-target", "debug", "kernels")
    return _native_bin


def native_eval(binary, kernel, rows):
    """rows: list of int lists -> list of ('ok', [ints]) | ('panic', None)"""
    inp = "".join("%s %s\n" % (kernel, " ".join(str(x) for x in r)) for r in rows)
    p = subprocess.run([binary], input=inp.encode(), stdout=subprocess.PIPE, stderr=subprocess.PIPE, timeout=600)
    out = []
    for ln in p.stdout.decode().split("\n"):
        if not ln.strip():
            continue
        if ln.startswith("ok"):
            out.append(("ok", [int(x) for x in ln.split()[1:]]))
        elif ln.startswith("panic"):
            out.append(("panic", None))
        else:
            out.append(("unknown", None))
    return out


# --------------------------------------------------------------------------
# solver side
# --------------------------------------------------------------------------


def run_solver(name, cmd, timeout):
    t0 = time.time()
    try:
        p = subprocess.run(cmd, stdout=subprocess.PIPE, stderr=subprocess.STDOUT, timeout=timeout + 20)
        out = p.stdout.decode(errors="replace")
    except subprocess.TimeoutExpired:
        return name, "timeout", "", time.time() - t0
    first = out.strip().split("\n")[0].strip() if out.strip() else ""
    ans = first if first in ("sat", "unsat", "unknown") else "unknown"
    if ans in ("sat", "unsat") and "(error" in out:
        # an error after an answer (e.g. get-value after unsat is never issued here) voids it
        ans = "error"
    return name, ans, out, time.time() - t0


def decide(script, tag, timeout):
    """Run every solver on the script. Returns (verdict, per_solver, path).
    Once one solver has answered sat/unsat the others get a grace period (they may still
    contradict it) and are then stopped and recorded as `timeout(grace)`."""
    os.makedirs(os.path.join(BUILD, "smt"), exist_ok=True)
    path = os.path.join(BUILD, "smt", tag + ".smt2")
    open(path, "w").write(script)
    procs = []
    t0 = time.time()
    for n, mk in SOLVERS:
        procs.append([n, subprocess.Popen(mk(path, timeout), stdout=subprocess.PIPE, stderr=subprocess.STDOUT), None, None])
    first_answer_at = None
    while True:
        pending = False
        for pr in procs:
            if pr[2] is not None:
                continue
            rc = pr[1].poll()
            if rc is None:
                pending = True
                continue
            out = pr[1].stdout.read().decode(errors="replace")
            first = out.strip().split("\n")[0].strip() if out.strip() else ""
            ans = first if first in ("sat", "unsat", "unknown") else "unknown"
            if ans in ("sat", "unsat") and "(error" in out:
                ans = "error"
            pr[2], pr[3] = ans, time.time() - t0
            if ans in ("sat", "unsat") and first_answer_at is None:
                first_answer_at = time.time()
        if not pending:
            break
        now = time.time()
        grace = first_answer_at is not None and now - first_answer_at > max(GRACE_S, 3 * (first_answer_at - t0))
        if grace or now - t0 > timeout + 20:
            for pr in procs:
                if pr[2] is None:
                    pr[1].kill()
                    pr[1].wait()
                    pr[2], pr[3] = ("timeout(grace)" if grace else "timeout"), time.time() - t0
            break
        time.sleep(0.05)
    answers = set(pr[2] for pr in procs if pr[2] in ("sat", "unsat"))
    per = {pr[0]: {"answer": pr[2], "time_s": round(pr[3], 2)} for pr in procs}
    if len(answers) == 1:
        return answers.pop(), per, path
    if len(answers) == 2:
        return "conflict", per, path
    return "undecided", per, path


def get_model(script, names, path_tag, timeout, prefer):
    """Re-run one answering solver with get-value to extract a model for `names`."""
    os.makedirs(os.path.join(BUILD, "smt"), exist_ok=True)
    path = os.path.join(BUILD, "smt", path_tag + ".model.smt2")
    open(path, "w").write(script + "(get-value (%s))\n" % " ".join(names))
    order = sorted(SOLVERS, key=lambda s: 0 if s[0] in prefer else 1)
    for n, mk in order:
        _, ans, out, _ = run_solver(n, mk(path, timeout), timeout)
        if ans != "sat":
            continue
        vals = {}
        for nm in names:
            m = re.search(r"\(\s*%s\s+(\(\s*-\s*\d+\s*\)|-?\d+)\s*\)" % re.escape(nm), out)
            if m:
                vals[nm] = int(re.sub(r"[()\s]", "", m.group(1)).replace("-", "-", 1)) if "(" not in m.group(1) else -int(re.sub(r"[^\d]", "", m.group(1)))
        if len(vals) == len(names):
            return vals
    return None


# --------------------------------------------------------------------------
# kernels
# --------------------------------------------------------------------------


class Kernel:
    """One encoded kernel: symbolic inputs, outputs, panic flag, obligations."""

    def __init__(self, name, prop, native, inputs, doc, bound, outside=""):
        self.name, self.prop, self.native = name, prop, native
        self.inputs = inputs          # [(smt name, (signed,bits))]
        self.doc, self.bound, self.outside = doc, bound, outside
        self.ex = None
        self.outputs = []             # smt terms (Int) in the order the native binary prints
        self.panic = "false"
        self.obligations = []         # (id, kind, assumptions, goal, pycheck, doc)

    def input_decls(self):
        out = []
        for n, ty in self.inputs:
            out.append("(declare-const %s Int)" % n)
            lo, hi = mir2smt.ty_range(ty)
            out.append("(assert (and (<= %s %s) (<= %s %s)))" % (lit(lo), n, n, lit(hi)))
        return out

    def prove(self, oid, assumptions, claim, pycheck, doc):
        """claim must hold whenever assumptions hold: query assumptions ∧ ¬claim, expect unsat."""
        self.obligations.append((oid, "prove", assumptions, "(not %s)" % claim, pycheck, doc))

    def reach(self, oid, assumptions, goal, doc):
        """vacuity witness: assumptions ∧ goal must be satisfiable."""
        self.obligations.append((oid, "reach", assumptions, goal, None, doc))

    def find(self, oid, assumptions, goal, pycheck, doc):
        """characterisation of a known defect: satisfiable == the defect exists."""
        self.obligations.append((oid, "find", assumptions, goal, pycheck, doc))


def fixed(term):
    return ("agg", None, {0: ("int", term, I32)})


def build_c13(mir):
    ks = []
    k = Kernel("c13_default_normalize", "C13", "normalize_f2dot14",
               [("min", I32), ("def", I32), ("max", I32), ("coord", I32), ("coord2", I32)],
               "fvar default normalisation (clamp, interpolate, clamp) followed by the 16.16 -> 2.14 conversion",
               "all 32-bit min <= default <= max (incl. degenerate axes) and all 32-bit user coordinates; axis span max-min < 32768.0 (2^31 raw units) for the exactness obligations",
               "avar segment maps (loop over map records: Kani harness c13_avar_*), tuples of more than one axis")
    ex = mir2smt.Executor(mir)
    k.ex = ex
    axis = ("agg", None, {0: ("int", "0", (False, 32)), 1: fixed("min"), 2: fixed("def"), 3: fixed("max"),
                          4: ("int", "0", (False, 16)), 5: ("int", "0", (False, 16))})
    conv = mir.resolve("<F2Dot14 as From<Fixed>>::from")
    if conv is None:
        raise Unsupported("cannot resolve <F2Dot14 as From<Fixed>>::from")

    def run(coord):
        r, p1 = ex.call("default_normalize", [("ref", axis), fixed(coord)])
        o, p2 = ex.call(conv, [r])
        return r[2][0][1], o[2][0][1], ex.define("Bool", "(or %s %s)" % (p1, p2), "p")

    fx1, out1, pan1 = run("coord")
    fx2, out2, pan2 = run("coord2")
    k.outputs = [out1]
    k.panic = pan1
    A = ["(<= min def)", "(<= def max)"]
    S = ["(< (- max min) 2147483648)"]
    k.prove("no_panic", A + S, "(not %s)" % pan1,
            lambda i, o: o[0] != "panic", "no panic for any well-ordered axis of span < 32768.0 and any coordinate")
    k.prove("range", A + S, "(and (<= (- 16384) %s) (<= %s 16384))" % (out1, out1),
            lambda i, o: o[0] == "ok" and -16384 <= o[1][0] <= 16384, "result within [-1.0, +1.0] in 2.14")
    k.prove("default_maps_to_zero", A + S + ["(= coord def)"], "(= %s 0)" % out1,
            lambda i, o: o[0] == "ok" and o[1][0] == 0, "default -> 0")
    k.prove("min_maps_to_minus_one", A + S + ["(< min def)", "(<= coord min)"], "(= %s (- 16384))" % out1,
            lambda i, o: o[0] == "ok" and o[1][0] == -16384, "coord <= min (min < default) -> exactly -1.0 (clamp + endpoint)")
    k.prove("max_maps_to_plus_one", A + S + ["(< def max)", "(>= coord max)"], "(= %s 16384)" % out1,
            lambda i, o: o[0] == "ok" and o[1][0] == 16384, "coord >= max (default < max) -> exactly +1.0")
    k.prove("degenerate_low", A + S + ["(= min def)", "(<= coord def)"], "(= %s 0)" % out1,
            lambda i, o: o[0] == "ok" and o[1][0] == 0, "min == default: every coord <= default -> 0")
    k.prove("degenerate_high", A + S + ["(= def max)", "(>= coord def)"], "(= %s 0)" % out1,
            lambda i, o: o[0] == "ok" and o[1][0] == 0, "default == max: every coord >= default -> 0")
    # accuracy: within one 2.14 unit of the exact quotient
    k.prove("accuracy_above", A + S + ["(< def coord)", "(<= coord max)"],
            "(<= (abs (- (* %s (- max def)) (* 16384 (- coord def)))) (- max def))" % out1,
            lambda i, o: o[0] == "ok" and abs(o[1][0] * (i[2] - i[1]) - 16384 * (i[3] - i[1])) <= (i[2] - i[1]),
            "default < coord <= max: |out*(max-default) - 16384*(coord-default)| <= max-default (one 2.14 unit)")
    k.prove("accuracy_below", A + S + ["(< coord def)", "(<= min coord)"],
            "(<= (abs (- (* %s (- def min)) (* 16384 (- coord def)))) (- def min))" % out1,
            lambda i, o: o[0] == "ok" and abs(o[1][0] * (i[1] - i[0]) - 16384 * (i[3] - i[1])) <= (i[1] - i[0]),
            "min <= coord < default: within one 2.14 unit of the exact quotient")
    k.prove("monotone", A + S + ["(<= coord coord2)"], "(<= %s %s)" % (out1, out2), None,
            "monotone non-decreasing in the user coordinate (two symbolic executions of the kernel)")
    k.prove("sign", A + S, "(and (=> (< coord def) (<= %s 0)) (=> (> coord def) (>= %s 0)))" % (out1, out1),
            lambda i, o: o[0] == "ok" and ((i[3] >= i[1]) or o[1][0] <= 0) and ((i[3] <= i[1]) or o[1][0] >= 0),
            "sign of the result follows the side of the default")
    k.reach("reach_half", A + S, "(= %s 8192)" % out1, "some input normalises to exactly +0.5")
    k.reach("reach_interior_negative", A + S, "(and (< %s 0) (> %s (- 16384)))" % (out1, out1), "interior negative result reachable")
    k.find("wide_span_sign", A + ["(>= (- max min) 2147483648)", "(< coord def)", "(<= min coord)"], "(and (not %s) (> %s 0))" % (pan1, out1),
           lambda i, o: not (o[0] == "ok" and o[1][0] > 0),
           "axis span >= 32768.0: Fixed::sub wraps and a coordinate below the default normalises to a positive value")
    # hostile axis records (any order of min/default/max): no panic as long as no difference of
    # two of the four values leaves the i32 range (the wide-span defect below is the complement)
    NW = ["(< (abs (- %s %s)) 2147483648)" % (a, b) for a, b in
          (("max", "min"), ("def", "min"), ("max", "def"), ("coord", "min"), ("coord", "max"), ("coord", "def"))]
    k.prove("no_panic_any_order", NW, "(not %s)" % pan1, lambda i, o: o[0] != "panic",
            "axis records with min/default/max in ANY order (malformed fvar): no panic")
    k.reach("reach_min_gt_max", NW + ["(> min max)"], "(not (= %s 0))" % out1, "min > max reachable with a non-zero result")
    k.sample_rows = lambda rnd: [[a, b, c, d] for (a, b, c, d) in _c13_samples(rnd)]
    ks.append(k)

    # F2Dot14 <-> Fixed conversions over all 65536 2.14 values
    k2 = Kernel("c13_f2dot14_fixed_roundtrip", "C13", "fixed_from_f2dot14", [("v", (True, 16))],
                "F2Dot14 -> Fixed -> F2Dot14 is the identity", "all 65536 F2Dot14 values")
    ex2 = mir2smt.Executor(mir)
    k2.ex = ex2
    to_fixed = mir.resolve("<Fixed as From<F2Dot14>>::from")
    if to_fixed is None:
        raise Unsupported("cannot resolve <Fixed as From<F2Dot14>>::from")
    f, p1 = ex2.call(to_fixed, [("agg", None, {0: ("int", "v", (True, 16))})])
    b, p2 = ex2.call(conv, [f])
    k2.outputs = [f[2][0][1]]
    k2.panic = ex2.define("Bool", "(or %s %s)" % (p1, p2), "p")
    k2.prove("roundtrip", [], "(and (not %s) (= %s v) (= %s (* 4 v)))" % (k2.panic, b[2][0][1], f[2][0][1]),
             lambda i, o: o[0] == "ok" and o[1][0] == 4 * i[0], "Fixed::from(F2Dot14) = 4*raw and converting back gives the original, no panic")
    k2.reach("reach", [], "(= %s (- 65536))" % f[2][0][1], "-1.0 reachable")
    k2.sample_rows = lambda rnd: [[v] for v in (-32768, -16384, -1, 0, 1, 16384, 32767)] + [[rnd.randint(-32768, 32767)] for _ in range(40)]
    ks.append(k2)
    # Fixed (16.16) and F2Dot14 (2.14) arithmetic used by both normalisation steps
    for tname, bits, frac, one in (("Fixed", 32, 16, 65536), ("F2Dot14", 16, 14, 16384)):
        ty = (True, bits)
        k3 = Kernel("c13_%s_mul_div" % tname.lower(), "C13", "%s_mul_div" % tname.lower(), [("a", ty), ("b", ty)],
                    "%s multiplication and division" % tname, "all %d-bit operand pairs" % bits)
        ex3 = mir2smt.Executor(mir)
        k3.ex = ex3
        fmul = mir.resolve("<%s as Mul>::mul" % tname)
        fdiv = mir.resolve("<%s as Div>::div" % tname)
        if fmul is None or fdiv is None:
            raise Unsupported("cannot resolve %s Mul/Div" % tname)
        va = ("agg", None, {0: ("int", "a", ty)})
        vb = ("agg", None, {0: ("int", "b", ty)})
        rm, pm = ex3.call(fmul, [va, vb])
        rd, pd = ex3.call(fdiv, [va, vb])
        om, od = rm[2][0][1], rd[2][0][1]
        k3.outputs = [om, od]
        k3.panic = ex3.define("Bool", "(or %s %s)" % (pm, pd), "p")
        lo, hi = -(1 << (bits - 1)), (1 << (bits - 1)) - 1
        mod = 1 << bits
        wrapf = lambda t: "(- (mod (+ %s %d) %d) %d)" % (t, -lo, mod, -lo)
        k3.prove("no_panic", [], "(not %s)" % k3.panic, lambda i, o: o[0] != "panic", "neither operation panics for any operands")
        k3.prove("mul_is_floor_of_product", [], "(= %s %s)" % (om, wrapf("(div (* a b) %d)" % one)),
                 lambda i, o, one=one, lo=lo, mod=mod: o[0] == "ok" and o[1][0] == (((i[0] * i[1]) // one - lo) % mod) + lo,
                 "a*b = floor(a*b / 2^%d) truncated to %d bits (arithmetic shift)" % (frac, bits))
        k3.prove("mul_by_one", ["(= b %d)" % one] if one <= hi else ["(= b %d)" % (one // 2)],
                 "(= %s a)" % om if one <= hi else "(= %s (div a 2))" % om,
                 None, "multiplying by 1.0 is the identity")
        k3.prove("div_by_zero_saturates", ["(= b 0)"], "(= %s %d)" % (od, hi),
                 lambda i, o, hi=hi: o[0] == "ok" and o[1][1] == hi, "x / 0 is the largest value (the documented stand-in for infinity)")
        k3.prove("div_by_one", ["(= b %d)" % one] if one <= hi else ["(= b %d)" % (one // 2)],
                 "(= %s a)" % od if one <= hi else "(= %s %s)" % (od, wrapf("(* 2 a)")),
                 None, "dividing by 1.0 is the identity")
        k3.prove("div_sign", ["(not (= b 0))", "(< (abs a) %d)" % (1 << (bits - frac - 1 + frac - frac))],
                 "(=> (and (> a 0) (> b 0) (>= a b)) (> %s 0))" % od, None, "a positive quotient of positives is positive (small operands)")
        k3.reach("reach", [], "(and (= %s 3) (= %s 5))" % (om, od), "both results reachable")
        k3.sample_rows = lambda rnd, lo=lo, hi=hi, one=one: [[a, b] for a in (lo, -one, -1, 0, 1, 3, one, hi) for b in (lo, -one, -2, 0, 1, one // 2, one, hi)] + \
            [[rnd.randint(lo, hi), rnd.randint(lo, hi)] for _ in range(60)]
        ks.append(k3)
    return ks


def _c13_samples(rnd):
    rows = [
        (0, 65536, 131072, 98304), (0, 65536, 131072, 0), (0, 65536, 131072, 131072), (0, 65536, 131072, 65536),
        (-65536, 0, 65536, 1), (-65536, 0, 65536, -1), (100 << 16, 400 << 16, 900 << 16, 650 << 16),
        (100 << 16, 400 << 16, 900 << 16, 250 << 16), (0, 0, 65536, 32768), (0, 65536, 65536, 32768),
        (5, 5, 5, 5), (5, 5, 5, 99), (MIN32, 0, MAX32, 12345), (MIN32, MAX32, MAX32, 32768), (-3, 7, 11, 9),
        (0, 1, 2, 1), (0, 3, 7, 5), (-7, -3, 0, -5), (1, 1000003, 2000017, 1500000), (10, 5, 20, 7),
    ]
    for _ in range(120):
        a = sorted(rnd.randint(-(1 << 26), 1 << 26) for _ in range(3))
        rows.append((a[0], a[1], a[2], rnd.randint(a[0] - 1000, a[2] + 1000)))
    for _ in range(40):
        a = sorted(rnd.randint(MIN32, MAX32) for _ in range(3))
        rows.append((a[0], a[1], a[2], rnd.randint(MIN32, MAX32)))
    return rows


U16 = (False, 16)
USIZE = (False, 64)
UMAX = (1 << 64) - 1


def build_c06(mir):
    k = Kernel("c06_offset_to_index", "C06", "offset_to_index",
               [("i", USIZE), ("ro", U16), ("sco", U16), ("len", USIZE)],
               "cmap format 4 idRangeOffset address -> glyphIdArray index",
               "segment index i < segCount <= 65535 (the documented precondition), idRangeOffset and start-code offset any u16")
    ex = mir2smt.Executor(mir)
    k.ex = ex
    args = [("int", "i", USIZE), ("int", "ro", U16), ("int", "sco", U16), ("int", "len", USIZE)]
    r, p = ex.call("offset_to_index", args)
    disc = r[1]
    val = r[2][0][1] if 0 in r[2] else "0"
    k.outputs = [disc, "(ite (= %s 0) %s 0)" % (disc, val)]
    k.panic = p
    A = ["(< i len)", "(<= len 65535)"]
    addr = "(+ ro (* 2 i) (* 2 sco))"
    k.prove("no_panic", A, "(not %s)" % p, lambda i, o: o[0] != "panic", "no panic under the documented precondition")
    k.prove("ok_iff_in_array", A, "(= (= %s 0) (and (>= %s (* 2 len)) (= (mod %s 2) 0)))" % (disc, addr, addr),
            lambda i, o: o[0] == "ok" and ((o[1][0] == 0) == ((i[1] + 2 * i[0] + 2 * i[2]) >= 2 * i[3] and (i[1] % 2 == 0))),
            "Ok exactly when the address lies at or after the end of idRangeOffset[] and is even")
    k.prove("index_value", A + ["(= %s 0)" % disc], "(= %s (- (div %s 2) len))" % (val, addr),
            lambda i, o: o[0] == "ok" and (o[1][0] != 0 or o[1][1] == (i[1] + 2 * i[0] + 2 * i[2]) // 2 - i[3]),
            "the index is (idRangeOffset + 2*i + 2*k)/2 - segCount")
    k.reach("reach_ok", A, "(and (= %s 0) (= %s 3))" % (disc, val), "index 3 reachable")
    k.reach("reach_err", A, "(= %s 1)" % disc, "rejection reachable")
    k.sample_rows = lambda rnd: [[0, 4, 0, 2], [1, 2, 0, 2], [1, 2, 1, 2], [0, 2, 0, 2], [0, 5, 0, 2], [3, 65535, 65535, 40], [2, 0, 0, 3]] + \
        [[rnd.randint(0, 40), rnd.randint(0, 200), rnd.randint(0, 50), 41] for _ in range(60)]
    return [k]


def build_c09(mir):
    ks = []
    k = Kernel("c09_max_power_of_2", "C09", "max_power_of_2", [("n", U16)],
               "exponent of the largest power of two <= n (sfnt searchRange / entrySelector)", "all 65536 u16 values")
    ex = mir2smt.Executor(mir)
    k.ex = ex
    r, p = ex.call("max_power_of_2", [("int", "n", U16)])
    k.outputs = [r[1]]
    k.panic = p
    spec = "(or %s)" % " ".join("(and (= %s %d) (<= %d n) (< n %d))" % (r[1], e, 1 << e, 1 << (e + 1)) for e in range(16))
    k.prove("floor_log2", ["(>= n 1)"], "(and (not %s) %s)" % (p, spec),
            lambda i, o: o[0] == "ok" and (1 << o[1][0]) <= i[0] < (1 << (o[1][0] + 1)),
            "for n >= 1: 2^r <= n < 2^(r+1), hence searchRange = 16*2^r and entrySelector = r are the spec values")
    k.prove("zero", ["(= n 0)"], "(and (not %s) (= %s 0))" % (p, r[1]), lambda i, o: o[0] == "ok" and o[1][0] == 0, "n = 0 -> 0 (saturating)")
    k.reach("reach_15", [], "(= %s 15)" % r[1], "r = 15 reachable")
    k.sample_rows = lambda rnd: [[v] for v in (0, 1, 2, 3, 4, 7, 8, 9, 15, 16, 17, 255, 256, 32767, 32768, 65535)] + [[rnd.randint(0, 65535)] for _ in range(40)]
    ks.append(k)
    # sfnt header search fields as FontBuilderWithHead::write_offset_table computes them.
    # Environment stubs: BTreeMap::len returns the symbolic table count; the big-endian
    # writers record their argument (they cannot fail on a WriteBuffer).
    k = Kernel("c09_sfnt_search_fields", "C09", "sfnt_search_fields", [("ntables", USIZE)],
               "numTables / searchRange / entrySelector / rangeShift written by FontBuilderWithHead::write_offset_table",
               "table counts 1..=4095 (16 * numTables must fit the u16 fields); stubs: BTreeMap::len = symbolic count, U16Be/U32Be::write = recorded",
               "the rest of FontBuilder (directory, offsets, padding, checksums)")
    ex = mir2smt.Executor(mir)
    k.ex = ex
    written = []
    import re as _re

    def stub_len(args):
        return ("int", "ntables", USIZE), "false"

    def stub_write(args):
        written.append(args[1][1])
        return ("agg", "0", {0: ("unit",)}), "false"

    ex.stubs = [(_re.compile(r"BTreeMap::<.*>::len$"), stub_len, "BTreeMap::len -> symbolic table count"),
                (_re.compile(r"<U(16|32)Be as WriteBinary<u(16|32)>>::write::<WriteBuffer>$"), stub_write,
                 "U16Be/U32Be::write on a WriteBuffer -> value recorded, Ok(())")]
    wot = [n for n in mir.fns if n.endswith("::write_offset_table")]
    if len(wot) != 1:
        raise Unsupported("write_offset_table not found")
    builder = ("ref", ("agg", None, {0: ("agg", None, {0: ("int", "65536", (False, 32)), 1: ("opaque",)})}))
    r, p = ex.call(wot[0], [builder, ("opaque",)])
    if len(written) != 5:
        raise Unsupported("write_offset_table wrote %d fields, expected 5" % len(written))
    k.outputs = [r[1], written[1], written[2], written[3], written[4]]
    k.panic = p
    nt, sr, es, rs = written[1], written[2], written[3], written[4]
    spec = "(or %s)" % " ".join("(and (= %s %d) (<= %d ntables) (< ntables %d))" % (es, e, 1 << e, 1 << (e + 1)) for e in range(12))
    k.prove("spec_fields", ["(>= ntables 1)", "(<= ntables 4095)"],
            "(and (not %s) (= %s 0) (= %s ntables) %s (= %s (* 16 (div %s 16))) (= (* %s 1) %s) (= %s (- (* 16 ntables) %s)))"
            % (p, r[1], nt, spec, sr, sr, sr, "(* 16 (ite (= %s 0) 1 (ite (= %s 1) 2 (ite (= %s 2) 4 (ite (= %s 3) 8 (ite (= %s 4) 16 (ite (= %s 5) 32 (ite (= %s 6) 64 (ite (= %s 7) 128 (ite (= %s 8) 256 (ite (= %s 9) 512 (ite (= %s 10) 1024 2048))))))))))))" % ((es,) * 11), rs, sr),
            lambda i, o: o[0] == "ok" and o[1][0] == 0 and o[1][1] == i[0] and (1 << o[1][3]) <= i[0] < (1 << (o[1][3] + 1))
            and o[1][2] == 16 * (1 << o[1][3]) and o[1][4] == 16 * i[0] - o[1][2],
            "for 1..=4095 tables: entrySelector = floor(log2 n), searchRange = 16 * 2^entrySelector, rangeShift = 16 n - searchRange, numTables = n")
    k.reach("reach_8_tables", ["(= ntables 8)"], "(and (= %s 128) (= %s 3) (= %s 0))" % (sr, es, rs), "8 tables give (128, 3, 0)")
    k.sample_rows = lambda rnd: [[v] for v in (2, 3, 4, 5, 7, 8, 9, 15, 16, 17, 31, 32, 33, 64, 100, 255, 256, 257)] + [[rnd.randint(2, 300)] for _ in range(20)]
    ks.append(k)
    for name, mod in (("long_align", 4), ("word_align", 2)):
        k = Kernel("c09_" + name, "C09", name, [("n", USIZE)],
                   "%s: round a length up to a multiple of %d" % (name, mod), "all usize values")
        ex = mir2smt.Executor(mir)
        k.ex = ex
        r, p = ex.call(name, [("int", "n", USIZE)])
        k.outputs = [r[1]]
        k.panic = p
        lim = UMAX - (mod - 1)
        k.prove("aligned", ["(<= n %d)" % lim], "(and (not %s) (>= %s n) (< %s (+ n %d)) (= (mod %s %d) 0))" % (p, r[1], r[1], mod, r[1], mod),
                lambda i, o, mod=mod: o[0] == "ok" and o[1][0] >= i[0] and o[1][0] < i[0] + mod and o[1][0] % mod == 0,
                "n <= usize::MAX-%d: result is the least multiple of %d that is >= n" % (mod - 1, mod))
        k.prove("overflow_is_detected", ["(> n %d)" % lim], p, lambda i, o: o[0] == "panic",
                "for larger n the (overflow-checked) addition panics rather than returning a shorter length")
        k.reach("reach", [], "(= %s 8)" % r[1], "8 reachable")
        k.sample_rows = lambda rnd, mod=mod: [[v] for v in (0, 1, 2, 3, 4, 5, 123, UMAX - mod, UMAX - mod + 1, UMAX)] + [[rnd.randint(0, 1 << 40)] for _ in range(30)]
        ks.append(k)
    return ks


def build_c15(mir):
    k = Kernel("c15_cff_offset_size", "C15", "offset_size", [("v", USIZE)],
               "CFF offSize selection: the number of bytes needed to hold an offset", "all usize values")
    ex = mir2smt.Executor(mir)
    k.ex = ex
    r, p = ex.call("offset_size", [("int", "v", USIZE)])
    disc = r[1]
    val = r[2][0][1] if 0 in r[2] else "0"
    k.outputs = [disc, "(ite (= %s 1) %s 0)" % (disc, val)]
    k.panic = p
    spec = ("(and (not %s) (ite (<= v 255) (and (= %s 1) (= %s 1)) (ite (<= v 65535) (and (= %s 1) (= %s 2)) "
            "(ite (<= v 16777215) (and (= %s 1) (= %s 3)) (ite (<= v 4294967295) (and (= %s 1) (= %s 4)) (= %s 0))))))"
            % (p, disc, val, disc, val, disc, val, disc, val, disc))

    def py(i, o):
        v = i[0]
        exp = (1, 1) if v <= 0xFF else (1, 2) if v <= 0xFFFF else (1, 3) if v <= 0xFFFFFF else (1, 4) if v <= 0xFFFFFFFF else (0, 0)
        return o[0] == "ok" and tuple(o[1]) == exp
    k.prove("thresholds", [], spec, py, "smallest n in 1..=4 with v < 256^n, None above 32 bits: a value is never given a width that truncates it")
    k.reach("reach_3", [], "(and (= %s 1) (= %s 3))" % (disc, val), "3-byte offsets reachable")
    k.sample_rows = lambda rnd: [[v] for v in (0, 1, 255, 256, 65535, 65536, 0xFFFFFF, 0x1000000, 0xFFFFFFFF, 0x100000000, UMAX)] + [[rnd.randint(0, 1 << 34)] for _ in range(30)]
    return [k]


BUILDERS = {"C13": build_c13, "C06": build_c06, "C09": build_c09, "C15": build_c15}

GRACE_S = 12
QUICK_TIMEOUT = 120
THOROUGH_TIMEOUT = 900


def validate_translation(k, binary, rnd, log, n_extra):
    """Solver-evaluate the encoding at concrete inputs and compare with native execution."""
    rows = k.sample_rows(rnd)
    nat = native_eval(binary, k.native, rows)
    if len(nat) != len(rows):
        return False, "native binary answered %d of %d rows" % (len(nat), len(rows)), 0
    in_names = [n for n, _ in k.inputs][:len(rows[0])]
    lines = ["(set-logic ALL)", "(set-option :produce-models true)"] + k.input_decls() + k.ex.decls
    lines += ["(assert %s)" % s for s in k.ex.side]
    outs = ["(define-fun out_%d () Int %s)" % (i, t) for i, t in enumerate(k.outputs)]
    lines += outs + ["(define-fun out_panic () Bool %s)" % k.panic]
    names = ["out_%d" % i for i in range(len(k.outputs))]
    for row in rows:
        lines.append("(push 1)")
        for n, v in zip(in_names, row):
            lines.append("(assert (= %s %s))" % (n, lit(v)))
        # inputs that the row does not set (second coordinate of a 2-run kernel) stay free
        lines.append("(check-sat)")
        lines.append("(get-value (out_panic %s))" % " ".join(names))
        lines.append("(pop 1)")
    os.makedirs(os.path.join(BUILD, "smt"), exist_ok=True)
    path = os.path.join(BUILD, "smt", k.name + ".validate.smt2")
    open(path, "w").write("\n".join(lines) + "\n")
    p = subprocess.run(["z3-new", "-T:600", path], stdout=subprocess.PIPE, stderr=subprocess.STDOUT, timeout=700)
    out = p.stdout.decode(errors="replace")
    blocks = re.split(r"^sat$", out, flags=re.M)[1:]
    if len(blocks) != len(rows):
        return False, "solver evaluated %d of %d validation rows: %s" % (len(blocks), len(rows), out[:300]), 0
    bad = 0
    for row, nv, blk in zip(rows, nat, blocks):
        pm = re.search(r"\(out_panic (true|false)\)", blk)
        vals = []
        for nm in names:
            m = re.search(r"\(%s (\(- \d+\)|\d+)\)" % nm, blk)
            vals.append(-int(re.sub(r"[^\d]", "", m.group(1))) if m and m.group(1).startswith("(") else (int(m.group(1)) if m else None))
        enc_panic = pm and pm.group(1) == "true"
        if nv[0] == "panic":
            if not enc_panic:
                bad += 1
                log("TRANSLATOR-MISMATCH kernel=%s inputs=%s native=panic encoding=%s" % (k.name, row, vals))
        elif nv[0] == "ok":
            if enc_panic or vals != nv[1]:
                bad += 1
                log("TRANSLATOR-MISMATCH kernel=%s inputs=%s native=%s encoding=%s panic=%s" % (k.name, row, nv[1], vals, enc_panic))
        else:
            bad += 1
    return bad == 0, "%d rows compared" % len(rows), len(rows)


def run_property(prop, tier, seed, only, log):
    if prop not in BUILDERS:
        return None
    timeout = QUICK_TIMEOUT if tier == "quick" else THOROUGH_TIMEOUT
    rnd = random.Random(seed)
    res = {"obligations": [], "machinery_problem": False}
    t0 = time.time()
    try:
        text = mir2smt.dump_mir(REPO)
        mir = mir2smt.Mir(text, REPO)
        kernels = BUILDERS[prop](mir)
    except Unsupported as e:
        log("INCONCLUSIVE: property=%s engine=mir2smt kernel cannot be encoded: %s" % (prop, e))
        res["obligations"].append({"harness": prop.lower() + "_smt_kernels", "engine": "smt", "status": "inconclusive",
                                   "why": "unsupported MIR construct: %s" % e, "queries": 0, "time_s": time.time() - t0})
        return res
    except Exception as e:
        log("INCONCLUSIVE: property=%s engine=mir2smt failed: %r" % (prop, e))
        res["obligations"].append({"harness": prop.lower() + "_smt_kernels", "engine": "smt", "status": "inconclusive",
                                   "why": "mir2smt error: %r" % (e,), "queries": 0, "time_s": time.time() - t0})
        res["machinery_problem"] = True
        return res
    binary = native_binary(log)
    if binary is None:
        res["machinery_problem"] = True
        return res
    for k in kernels:
        if only and only not in k.name:
            continue
        ok, msg, nrows = validate_translation(k, binary, rnd, log, 0)
        if not ok:
            log("MACHINERY: property=%s kernel=%s translator validation failed (%s)" % (prop, k.name, msg))
            res["machinery_problem"] = True
            res["obligations"].append({"harness": k.name, "engine": "smt", "status": "inconclusive",
                                       "why": "translator validation failed: " + msg, "queries": 0, "time_s": 0})
            continue
        def one(item, k=k, nrows=nrows):
            oid, kind, assumptions, goal, pycheck, doc = item
            name = "%s__%s" % (k.name, oid)
            tq = time.time()
            script = k.ex.script(k.input_decls(), assumptions, goal)
            verdict, per, path = decide(script, name, timeout)
            ob = {"harness": name, "engine": "smt", "doc": doc, "bound": k.bound, "outside": k.outside,
                  "functions": sorted(k.ex.functions_encoded), "queries": 1, "time_s": round(time.time() - tq, 2),
                  "solvers": per, "validated_rows": nrows}
            if verdict in ("undecided", "conflict"):
                ob["status"] = "inconclusive"
                ob["why"] = "solvers: %s" % json.dumps(per)
                log("INCONCLUSIVE: property=%s kernel=%s %s" % (prop, name, ob["why"]))
                if verdict == "conflict":
                    ob["conflict"] = True
            elif kind == "reach":
                if verdict == "sat":
                    ob["status"] = "discharged"
                else:
                    ob["status"] = "inconclusive"
                    ob["why"] = "reachability witness unsatisfiable (vacuous assumptions)"
                    log("INCONCLUSIVE: property=%s kernel=%s %s" % (prop, name, ob["why"]))
            elif verdict == "unsat":
                ob["status"] = "discharged"
            else:
                # sat on a prove/find query: counterexample -> native replay
                in_names = [n for n, _ in k.inputs]
                model = get_model(script, in_names, name, timeout, [s for s, v in per.items() if v["answer"] == "sat"])
                ob["status"] = "failed"
                ob["replayed"] = False
                if model and pycheck:
                    row = [model[n] for n in in_names][:len(k.sample_rows(random.Random(0))[0])]
                    nat = native_eval(binary, k.native, [row])
                    holds = pycheck(row, (nat[0][0], nat[0][1]) if nat else ("unknown", None))
                    ob["model"] = dict(zip(in_names, row))
                    ob["native"] = nat[0] if nat else None
                    if not holds:
                        ob["replayed"] = True
                        os.makedirs(os.path.join(REPLAYS, prop), exist_ok=True)
                        rp = os.path.join(REPLAYS, prop, name + ".json")
                        json.dump({"engine": "smt", "property": prop, "kernel": k.name, "obligation": oid, "doc": doc,
                                   "native_kernel": k.native, "inputs": ob["model"], "native_result": ob["native"],
                                   "smt_file": path, "how_to_replay": "./check --replay " + rp}, open(rp, "w"), indent=1)
                        ob["replay_path"] = rp
                elif model is None:
                    ob["why"] = "no model could be extracted"
                else:
                    # obligations without a native predicate (2-run monotonicity): replay both runs
                    row = [model[n] for n in in_names]
                    if k.name == "c13_default_normalize" and oid == "monotone":
                        nat = native_eval(binary, k.native, [row[:4], row[:3] + [row[4]]])
                        ob["model"] = dict(zip(in_names, row))
                        ob["native"] = nat
                        if len(nat) == 2 and (nat[0][0] != "ok" or nat[1][0] != "ok" or nat[0][1][0] > nat[1][1][0]):
                            ob["replayed"] = True
                            os.makedirs(os.path.join(REPLAYS, prop), exist_ok=True)
                            rp = os.path.join(REPLAYS, prop, name + ".json")
                            json.dump({"engine": "smt", "property": prop, "kernel": k.name, "obligation": oid, "doc": doc,
                                       "native_kernel": k.native, "inputs": ob["model"], "native_result": nat,
                                       "how_to_replay": "./check --replay " + rp}, open(rp, "w"), indent=1)
                            ob["replay_path"] = rp
            return ob

        with ThreadPoolExecutor(max_workers=6) as pool:
            for ob in pool.map(one, k.obligations):
                if ob.get("conflict"):
                    res["machinery_problem"] = True
                res["obligations"].append(ob)
    return res


def replay(d, log):
    binary = native_binary(log)
    if not binary:
        return 2
    row = list(d["inputs"].values())
    nat = native_eval(binary, d["native_kernel"], [row[:4]] if d["kernel"].startswith("c13_default") else [row])
    log("kernel=%s inputs=%s native=%s (recorded: %s)" % (d["kernel"], d["inputs"], nat, d.get("native_result")))
    return 1
