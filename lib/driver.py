#!/usr/bin/env python3
"""Driver for the solver-based checks of /verif (see DESIGN.md sections 2-3).

    ./check <ID> [--tier quick|thorough] [--only <harness-substring>] [--jobs N]
    ./check --replay <path>

Engine A: Kani/CBMC harnesses in /verif/kani (path dependency on /repo, so every
          run recompiles /repo's current working tree).
Engine B: MIR -> SMT-LIB kernels (lib/mir2smt.py), regenerated from /repo's
          source on every run.
Engine C: native replay of every counterexample before it is reported.

Exit codes: 0 = property held on everything explored (inconclusive obligations
are printed, known findings are printed as KNOWN-FINDING); 1 = at least one
replayed violation that known_findings.json does not list (one VIOLATION line
each); 2 = machinery problem (nothing could be decided, translator validation
failed, counterexample did not reproduce).
"""
import argparse
import hashlib
import json
import os
import re
import resource
import shutil
import subprocess
import sys
import time

VERIF = os.path.dirname(os.path.dirname(os.path.abspath(__file__)))
# The registered commands always check /repo. For development (running seeded changes in
# parallel without touching /repo) VERIF_REPO points the whole machinery at a scratch
# worktree; build output, evidence and replays then go under VERIF_BUILD instead.
REPO = os.environ.get("VERIF_REPO", "/repo")
ALT = REPO != "/repo"
BUILD = os.environ.get("VERIF_BUILD") or os.path.join(VERIF, ".build")
KANI_SRC = os.path.join(VERIF, "kani")
KANI_DIR = os.path.join(BUILD, "kani-crate") if ALT else KANI_SRC
EVIDENCE = os.path.join(BUILD, "evidence") if ALT else os.path.join(VERIF, "evidence")
REPLAYS = os.path.join(BUILD, "replays") if ALT else os.path.join(VERIF, "replays")
KNOWN = os.path.join(VERIF, "known_findings.json")


def prepare_alt_crate():
    """Copy the harness crate with its path dependency redirected to VERIF_REPO."""
    if not ALT:
        return
    if os.path.exists(KANI_DIR):
        shutil.rmtree(KANI_DIR)
    os.makedirs(KANI_DIR)
    shutil.copytree(os.path.join(KANI_SRC, "src"), os.path.join(KANI_DIR, "src"))
    toml = open(os.path.join(KANI_SRC, "Cargo.toml")).read().replace('path = "/repo"', 'path = "%s"' % REPO)
    open(os.path.join(KANI_DIR, "Cargo.toml"), "w").write(toml)

sys.path.insert(0, os.path.join(VERIF, "lib"))

TIERS = {
    # per-harness timeout (s), per-process address-space cap (kB), parallel harnesses
    "quick": {"timeout": 600, "mem_kb": 10_000_000, "jobs": 8},
    "thorough": {"timeout": 2400, "mem_kb": 16_000_000, "jobs": 5},
}

ENV = dict(os.environ)
ENV["CARGO_NET_OFFLINE"] = "true"
ENV.pop("RUSTFLAGS", None)


def log(msg):
    print(msg, flush=True)


# --------------------------------------------------------------------------
# harness discovery: annotations live next to the harness in kani/src/cXX.rs
# --------------------------------------------------------------------------

HARNESS_RE = re.compile(r"(?:\bfn\s+|!\(\s*)(c\d\d_[a-z0-9_]+)\b")
ANNOT_RE = re.compile(r"^\s*//[/!]?\s*@(\w+)(?:\s+(.*\S))?\s*$")


def module_files(prop):
    """Source files holding the harnesses of a property (hand-written + generated)."""
    p = prop.lower()
    files = []
    for name in sorted(os.listdir(os.path.join(KANI_DIR, "src"))):
        if name == p + ".rs" or name.startswith(p + "_"):
            files.append(os.path.join(KANI_DIR, "src", name))
    return files


def discover_harnesses(prop):
    """Return [{name, module, tier, funcs, bound, out, doc, flags}] for property `prop`."""
    out = []
    for path in module_files(prop):
        module = os.path.basename(path)[:-3]
        lines = open(path).read().split("\n")
        defaults = {}
        for line in lines:
            m = re.match(r"^//!\s*@(\w+)\s+(.*\S)\s*$", line)
            if m:
                defaults.setdefault(m.group(1), []).append(m.group(2))
        seen = set()
        for idx, line in enumerate(lines):
            m = HARNESS_RE.search(line)
            if not m or line.lstrip().startswith("//"):
                continue
            name = m.group(1)
            if not name.startswith(prop.lower() + "_") or name in seen:
                continue
            # must be a definition site: `fn name(` or a macro invocation `mac!(name,`
            if not re.search(r"(\bfn\s+%s\s*\()|(!\(\s*%s\s*[,)])" % (name, name), line):
                continue
            seen.add(name)
            ann = {}
            doc = []
            j = idx - 1
            while j >= 0:
                s = lines[j].strip()
                if s.startswith("#["):
                    j -= 1
                    continue
                if s.startswith("//"):
                    am = ANNOT_RE.match(lines[j])
                    if am:
                        ann.setdefault(am.group(1), []).append(am.group(2) or "")
                    else:
                        doc.append(s.lstrip("/").strip())
                    j -= 1
                    continue
                break
            doc.reverse()
            h = {
                "name": name,
                "module": module,
                "id": "%s::%s" % (module, name),
                "tier": (ann.get("tier") or ["quick"])[0],
                "funcs": ann.get("funcs") or defaults.get("funcs") or [],
                "bound": " ".join(reversed(ann.get("bound", []))) or " ".join(defaults.get("bound", [])),
                "out": " ".join(reversed(ann.get("out", []))) or " ".join(defaults.get("out", [])),
                "flags": " ".join(ann.get("flags", [])),
                "stubs": ann.get("stub") or defaults.get("stub") or [],
                "release": "release" in ann,
                "doc": " ".join(doc),
            }
            out.append(h)
    return out


# --------------------------------------------------------------------------
# Engine A: run Kani
# --------------------------------------------------------------------------


def set_limits(mem_kb):
    def fn():
        os.setsid()
        resource.setrlimit(resource.RLIMIT_AS, (mem_kb * 1024, mem_kb * 1024))
    return fn


def sync_lockfile(dst_dir):
    src = os.path.join(REPO, "Cargo.lock")
    if os.path.exists(src):
        shutil.copyfile(src, os.path.join(dst_dir, "Cargo.lock"))


def kani_target_dir():
    return os.path.join(BUILD, "kani-target")


def run_kani(prop, harnesses, tier_cfg, extra_flags, tag, jobs=None):
    """One `cargo kani` invocation over `harnesses`. Returns (json_or_None, log_text, wall_s)."""
    os.makedirs(BUILD, exist_ok=True)
    sync_lockfile(KANI_DIR)
    out_json = os.path.join(BUILD, "%s-%s.json" % (prop, tag))
    out_log = os.path.join(BUILD, "%s-%s.log" % (prop, tag))
    if os.path.exists(out_json):
        os.remove(out_json)
    features = sorted(set(feature_of(h["module"]) for h in harnesses))
    cmd = [
        "cargo", "kani",
        "--features", ",".join(features),
        "--target-dir", kani_target_dir(),
        "-j", str(jobs or tier_cfg["jobs"]),
        "--output-format", "terse",
        "-Z", "unstable-options",
        "--harness-timeout", "%ds" % tier_cfg["timeout"],
        "--export-json", out_json,
        "--exact",
    ]
    if any(h["stubs"] for h in harnesses):
        cmd += ["-Z", "stubbing"]
    cmd += extra_flags
    for h in harnesses:
        cmd += ["--harness", h["id"]]
    t0 = time.time()
    overall = tier_cfg["timeout"] * (2 + len(harnesses) // max(1, (jobs or tier_cfg["jobs"]))) + 900
    with open(out_log, "w") as lf:
        lf.write("$ " + " ".join(cmd) + "\n")
        lf.flush()
        try:
            p = subprocess.Popen(cmd, cwd=KANI_DIR, env=ENV, stdout=lf, stderr=subprocess.STDOUT,
                                 preexec_fn=set_limits(tier_cfg["mem_kb"]))
            try:
                p.wait(timeout=overall)
            except subprocess.TimeoutExpired:
                os.killpg(p.pid, 9)
                p.wait()
        except Exception as e:  # pragma: no cover
            lf.write("driver: failed to run cargo kani: %r\n" % (e,))
    wall = time.time() - t0
    text = open(out_log, errors="replace").read()
    data = None
    if os.path.exists(out_json):
        try:
            data = json.load(open(out_json))
        except Exception:
            data = None
    return data, text, wall


def feature_of(module):
    # one cargo feature per harness module (c14, c14_gen, ...), so that a module that no
    # longer compiles against /repo takes only its own obligations down
    return module


def strip_generics(fn):
    """`a::b::<'_>::c::<T>` -> `a::b::c` (stable key for known findings)."""
    out = []
    depth = 0
    for ch in fn:
        if ch == "<":
            depth += 1
        elif ch == ">":
            depth -= 1
        elif depth == 0:
            out.append(ch)
    s = "".join(out)
    s = re.sub(r"(::)+", "::", s).strip(":")
    return s


INCONCLUSIVE_DESC = ("unwinding assertion",)
INCONCLUSIVE_CAT = ("unsupported_construct", "unwind")


def classify(result):
    """Split the checks of one harness result into failures / inconclusive / covers."""
    fails, incon, covers_bad, covers_ok = [], [], [], 0
    n_checks = 0
    n_decided = 0
    for c in result.get("checks", []):
        cat = c.get("category", "")
        st = c.get("status", "")
        if cat == "cover":
            if st == "Satisfied":
                covers_ok += 1
            else:
                covers_bad.append(c)
            continue
        n_checks += 1
        if st in ("Success", "Unreachable"):
            n_decided += 1
            continue
        if st == "Failure":
            desc = c.get("description", "")
            if cat in INCONCLUSIVE_CAT or any(k in desc for k in INCONCLUSIVE_DESC):
                incon.append(c)
            else:
                n_decided += 1
                fails.append(c)
        else:  # Undetermined, SolverError, ...
            incon.append(c)
    return fails, incon, covers_bad, covers_ok, n_checks, n_decided


# --------------------------------------------------------------------------
# known findings
# --------------------------------------------------------------------------


def load_known():
    if not os.path.exists(KNOWN):
        return []
    return json.load(open(KNOWN)).get("findings", [])


def match_known(known, prop, harness, check):
    """An `open` entry suppresses a failing check when property, harness (or its
    role prefix), failing function and description all match."""
    fn = strip_generics(check.get("function", ""))
    desc = check.get("description", "")
    for k in known:
        if k.get("kind") != "open" or k.get("property") != prop:
            continue
        if not re.fullmatch(k.get("harness", ".*"), harness):
            continue
        if k.get("function") and k["function"] not in fn:
            continue
        if k.get("description") and k["description"] not in desc:
            continue
        return k
    return None


# --------------------------------------------------------------------------
# Engine C: replay of Kani counterexamples
# --------------------------------------------------------------------------

PLAYBACK_BLOCK = re.compile(
    r"Concrete playback unit test for `([^`]+)`:\s*```\s*(.*?)```", re.S)


def concrete_playback(prop, h, tier_cfg):
    """Ask Kani for concrete values for every failing check of harness h.
    Returns list of (check_kind, check_desc, test_source).

    First attempt with CBMC's formula slicing on (cheap); if Kani then prints playback tests
    without concrete values (slicing can drop the nondet assignments from the trace) the run
    is repeated with --no-slice-formula, whose un-sliced trace needs far more memory
    (kani-driver holds it in memory): 45 GB cap, one playback at a time."""
    flags = h["flags"].split() if h["flags"] else []
    for attempt, (extra, mem_kb) in enumerate(((["--no-slice-formula"], 45_000_000),) if os.environ.get("VERIF_PLAYBACK_NOSLICE") else
                                              (([], max(tier_cfg["mem_kb"], 16_000_000)), (["--no-slice-formula"], 45_000_000))):
        cmd = ["cargo", "kani", "--features", feature_of(h["module"]), "--target-dir", kani_target_dir(),
               "--output-format", "terse", "-Z", "unstable-options", "--harness-timeout",
               "%ds" % (4 * tier_cfg["timeout"]), "-Z", "concrete-playback", "--concrete-playback=print"] + extra + \
              ["--exact", "--harness", h["id"]] + flags
        if h["stubs"]:
            cmd += ["-Z", "stubbing"]
        try:
            p = subprocess.run(cmd, cwd=KANI_DIR, env=ENV, stdout=subprocess.PIPE, stderr=subprocess.STDOUT,
                               preexec_fn=set_limits(mem_kb), timeout=4 * tier_cfg["timeout"] + 900)
            text = p.stdout.decode(errors="replace")
        except subprocess.TimeoutExpired:
            continue
        tests = []
        for m in PLAYBACK_BLOCK.finditer(text):
            src = m.group(2)
            cm = re.search(r"/// Check for `([^`]*)`: \"(.*?)\"\s*\n\s*(?:\n|#\[test\])", src, re.S)
            kind, desc = (cm.group(1), cm.group(2)) if cm else ("", "")
            # keep only the test function: a multi-line check description breaks the doc comment
            k = src.find("#[test]")
            if k >= 0:
                src = src[k:]
            if re.search(r"concrete_vals: Vec<Vec<u8>> = vec!\[\s*\];", src):
                continue   # no values: useless for replay
            tests.append((kind, desc, src))
        if any(t[0] != "cover" for t in tests):
            return tests
    return []


def run_playback(h, test_src, release=False):
    """Run one generated unit test natively (real allsorts build, dev profile as
    Kani models it; `release=True` re-runs with the release profile).
    Returns (reproduced: bool, output_tail)."""
    pb = os.path.join(BUILD, "playback")
    if os.path.exists(pb):
        shutil.rmtree(pb)
    os.makedirs(pb)
    shutil.copytree(os.path.join(KANI_DIR, "src"), os.path.join(pb, "src"))
    shutil.copyfile(os.path.join(KANI_DIR, "Cargo.toml"), os.path.join(pb, "Cargo.toml"))
    sync_lockfile(pb)
    modfile = os.path.join(pb, "src", h["module"] + ".rs")
    with open(modfile, "a") as f:
        f.write("\n" + test_src + "\n")
    tm = re.search(r"fn (kani_concrete_playback_\w+)", test_src)
    tname = tm.group(1) if tm else "kani_concrete_playback"
    env = dict(ENV)
    env["CARGO_TARGET_DIR"] = os.path.join(BUILD, "playback-target")
    env["RUST_BACKTRACE"] = "1"
    if not release:
        cmd = ["cargo", "kani", "playback", "-Z", "concrete-playback", "--features",
               feature_of(h["module"]), "--", h["module"] + "::" + tname, "--exact", "--test-threads=1"]
    else:
        kani_home = os.path.expanduser("~/.kani/kani-0.68.0")
        flags = ["-Zunstable-options", "-Ztrim-diagnostic-paths=no", "-Zhuman_readable_cgu_names",
                 "-Zalways-encode-mir", "--cfg=kani", "-Zcrate-attr=feature(register_tool)",
                 "-Zcrate-attr=register_tool(kanitool)", "--force-warn", "unstable_features",
                 "--sysroot", kani_home + "/playback", "-L", kani_home + "/playback/lib",
                 "--extern", "force:kani", "--extern",
                 "noprelude,nounused:std=" + kani_home + "/playback/lib/libstd.rlib"]
        env["CARGO_ENCODED_RUSTFLAGS"] = "\x1f".join(flags)
        env["RUSTC"] = kani_home + "/bin/kani-compiler"
        cmd = [kani_home + "/toolchain/bin/cargo", "test", "--release", "--features",
               feature_of(h["module"]), "--target", "x86_64-unknown-linux-gnu", "-Zhost-config",
               "-Ztarget-applies-to-host", "--config=host.rustflags=[\"--cfg=kani_host\"]", "--",
               h["module"] + "::" + tname, "--exact", "--test-threads=1"]
    try:
        p = subprocess.run(cmd, cwd=pb, env=env, stdout=subprocess.PIPE, stderr=subprocess.STDOUT, timeout=1500)
        text = p.stdout.decode(errors="replace")
    except subprocess.TimeoutExpired:
        return None, "playback timed out"
    ran = re.search(r"test result: (\w+)\. (\d+) passed; (\d+) failed", text)
    if not ran:
        return None, text[-3000:]
    failed = int(ran.group(3))
    passed = int(ran.group(2))
    if failed + passed == 0:
        return None, text[-3000:]
    # keep the panic message and the first frames
    pm = re.search(r"(thread '.*?panicked at.*?)(?:\n\s+\d+:|\nstack backtrace)", text, re.S)
    tail = pm.group(1) if pm else text[-1500:]
    return failed > 0, tail


def desc_matches(check, kind, desc):
    cd = check.get("description", "")
    return desc == cd or desc in cd or cd in desc


# --------------------------------------------------------------------------
# main flow for one property
# --------------------------------------------------------------------------


def check_property(prop, tier, only=None, jobs=None, seed=0, skip_smt=False, skip_kani=False):
    t_start = time.time()
    tier_cfg = TIERS[tier]
    os.makedirs(BUILD, exist_ok=True)
    prepare_alt_crate()
    if prop == "C14":
        # harnesses generated from /repo's current source: one per public ReadFrom implementor
        try:
            import gen_harness
            gen_harness.generate(REPO, os.path.join(KANI_DIR, "src", "c14_gen.rs"))
        except Exception as e:
            log("INCONCLUSIVE: property=C14 harness generator failed: %r" % (e,))
    known = load_known()
    harnesses = discover_harnesses(prop)
    if tier == "quick":
        harnesses = [h for h in harnesses if h["tier"] == "quick"]
    else:
        # release-profile semantics: harnesses marked `// @release` are decided a second time
        # with Kani's overflow checks off, i.e. arithmetic wraps as in a release build and only
        # the harness's own assertions (and the memory-safety checks) can fail
        rel = []
        for h in harnesses:
            if h.get("release"):
                h2 = dict(h)
                h2["flags"] = (h["flags"] + " --no-overflow-checks").strip()
                h2["name"] = h["name"] + "__release_semantics"
                h2["bound"] = h["bound"] + " [release profile: integer overflow wraps instead of panicking]"
                rel.append(h2)
        harnesses = harnesses + rel
    if only:
        harnesses = [h for h in harnesses if only in h["name"]]

    ev = {
        "obligations": [], "inconclusive": [], "violations": [], "known_hit": [],
        "functions": set(), "queries": 0, "solver_time_s": 0.0, "cbmc_checks": 0,
        "cbmc_checks_decided": 0, "discharged": 0, "covers_satisfied": 0, "stubs": set(),
        "smt": [],
    }
    machinery_problem = False
    violations = []   # (harness, check, replay_path)
    printed_known = set()

    # ---- Engine A ----
    groups = {}
    for h in harnesses:
        groups.setdefault((h["flags"], h["module"]), []).append(h)
    if skip_kani:
        groups = {}
    for gi, ((flags, _module), hs) in enumerate(sorted(groups.items())):
        # keep modules apart: a module that no longer builds takes only its own harnesses down
        by_feature = {}
        for h in hs:
            by_feature.setdefault(feature_of(h["module"]) + "|" + h["module"], []).append(h)
        # one invocation per flag group (features are unioned) unless the build fails
        data, text, wall = run_kani(prop, hs, tier_cfg, flags.split(), "%s-g%d" % (tier, gi), jobs)
        results = {}
        if data:
            for r in data.get("verification_results", {}).get("results", []):
                results[r["harness_id"]] = r
            for c in data.get("cbmc", []):
                st = c.get("cbmc_stats") or {}
                ev["solver_time_s"] += float(st.get("runtime_decision_procedure_s", 0) or 0)
        build_failed = (not data) or ("error: could not compile" in text) or ("error[E" in text and not results)
        if build_failed and not results:
            errs = re.findall(r"^(error.*)$", text, re.M)[:5]
            log("INCONCLUSIVE: property=%s harness crate did not build for flags [%s]: %s" % (prop, flags, "; ".join(errs)))
            for h in hs:
                ev["inconclusive"].append({"harness": h["name"], "why": "harness module does not build against /repo"})
            machinery_problem = True
            continue
        for h in hs:
            r = results.get(h["id"])
            ob = {"harness": h["name"], "engine": "kani", "doc": h["doc"], "bound": h["bound"],
                  "outside": h["out"], "functions": h["funcs"], "flags": h["flags"], "stubs": h["stubs"]}
            for f in h["funcs"]:
                ev["functions"].add(f)
            for s in h["stubs"]:
                ev["stubs"].add(s)
            if r is None:
                why = "no result (timeout %ds, memory cap %d MB, or crash)" % (tier_cfg["timeout"], tier_cfg["mem_kb"] // 1000)
                log("INCONCLUSIVE: property=%s harness=%s %s" % (prop, h["name"], why))
                ob["status"] = "inconclusive"
                ob["why"] = why
                ev["inconclusive"].append({"harness": h["name"], "why": why})
                ev["obligations"].append(ob)
                continue
            fails, incon, covers_bad, covers_ok, n_checks, n_decided = classify(r)
            ob["cbmc_checks"] = n_checks
            ob["time_s"] = r.get("duration_ms", 0) / 1000.0
            ev["cbmc_checks"] += n_checks
            ev["cbmc_checks_decided"] += n_decided
            ev["queries"] += 1
            ev["covers_satisfied"] += covers_ok
            status = r.get("status")
            if status not in ("Success", "Failure"):
                why = "kani status %s" % status
                log("INCONCLUSIVE: property=%s harness=%s %s" % (prop, h["name"], why))
                ob["status"] = "inconclusive"
                ob["why"] = why
                ev["inconclusive"].append({"harness": h["name"], "why": why})
                ev["obligations"].append(ob)
                continue
            if n_checks == 0:
                why = "no checks reported (timeout or out of memory)"
                log("INCONCLUSIVE: property=%s harness=%s %s" % (prop, h["name"], why))
                ob["status"] = "inconclusive"
                ob["why"] = why
                ev["inconclusive"].append({"harness": h["name"], "why": why})
                ev["obligations"].append(ob)
                continue
            # failures: known or new?
            new_fails = []
            for c in fails:
                k = match_known(known, prop, h["name"], c)
                if k:
                    key = (k.get("id") or k.get("what"))
                    if key not in printed_known:
                        printed_known.add(key)
                        log("KNOWN-FINDING: property=%s %s" % (prop, k.get("what")))
                    ev["known_hit"].append({"harness": h["name"], "finding": k.get("id") or k.get("what")})
                else:
                    new_fails.append(c)
            if incon:
                descs = sorted(set(c.get("description", "") for c in incon))
                unwound = [c for c in incon if "unwinding assertion" in c.get("description", "") and c.get("status") == "Failure"]
                if unwound:
                    why = "unwinding bound too small: %s (all other checks are undetermined)" % "; ".join(sorted(set(c.get("description", "") for c in unwound))[:3])
                elif any(c.get("status") == "Error" for c in incon) or len(incon) > 50:
                    why = "CBMC solver error / out of memory (%d checks undetermined; memory cap %d MB)" % (len(incon), tier_cfg["mem_kb"] // 1000)
                else:
                    why = "bound too small or unsupported construct: " + "; ".join(descs)[:300]
                log("INCONCLUSIVE: property=%s harness=%s %s" % (prop, h["name"], why))
                ev["inconclusive"].append({"harness": h["name"], "why": why})
            if new_fails:
                ob["status"] = "failed"
                ob["failed_checks"] = [{"function": c.get("function"), "description": c.get("description"),
                                        "location": c.get("location")} for c in new_fails]
                rep = replay_failures(prop, h, new_fails, tier_cfg)
                ob["replay"] = rep["summary"]
                if rep["reproduced"]:
                    for path in rep["paths"]:
                        violations.append((h["name"], path))
                else:
                    machinery_problem = True
                    log("MACHINERY: property=%s harness=%s counterexample did not reproduce natively: %s"
                        % (prop, h["name"], rep["summary"]))
            elif incon:
                ob["status"] = "inconclusive"
                ob["why"] = why
            elif covers_bad and not fails:
                descs = [c.get("description", "") for c in covers_bad]
                why = "reachability witness not satisfied (vacuity guard): " + "; ".join(descs)[:300]
                log("INCONCLUSIVE: property=%s harness=%s %s" % (prop, h["name"], why))
                ob["status"] = "inconclusive"
                ob["why"] = why
                ev["inconclusive"].append({"harness": h["name"], "why": why})
            elif fails:
                ob["status"] = "known-finding"
            else:
                ob["status"] = "discharged"
                ev["discharged"] += 1
            ev["obligations"].append(ob)

    # ---- Engine B ----
    if not skip_smt:
        try:
            import smt_engine
            smt_res = smt_engine.run_property(prop, tier, seed, only, log)
        except ImportError:
            smt_res = None
        if smt_res:
            for ob in smt_res["obligations"]:
                ev["obligations"].append(ob)
                ev["queries"] += ob.get("queries", 0)
                ev["solver_time_s"] += ob.get("time_s", 0)
                for f in ob.get("functions", []):
                    ev["functions"].add(f)
                if ob["status"] == "discharged":
                    ev["discharged"] += 1
                elif ob["status"] == "inconclusive":
                    ev["inconclusive"].append({"harness": ob["harness"], "why": ob.get("why", "")})
                elif ob["status"] == "failed":
                    k = None
                    for kf in known:
                        if kf.get("kind") == "open" and kf.get("property") == prop and re.fullmatch(kf.get("harness", ""), ob["harness"]):
                            k = kf
                    if k:
                        key = k.get("id") or k.get("what")
                        if key not in printed_known:
                            printed_known.add(key)
                            log("KNOWN-FINDING: property=%s %s" % (prop, k.get("what")))
                        ev["known_hit"].append({"harness": ob["harness"], "finding": key})
                        ob["status"] = "known-finding"
                    elif ob.get("replayed"):
                        violations.append((ob["harness"], ob["replay_path"]))
                    else:
                        machinery_problem = True
                        log("MACHINERY: property=%s kernel=%s model did not reproduce natively" % (prop, ob["harness"]))
            if smt_res.get("machinery_problem"):
                machinery_problem = True

    for name, path in violations:
        log("VIOLATION property=%s replay=%s" % (prop, path))
        ev["violations"].append({"harness": name, "replay": path})

    wall = time.time() - t_start
    write_evidence(prop, tier, seed, ev, wall, partial=bool(only or skip_smt or skip_kani))
    n_ob = len(ev["obligations"])
    log("SUMMARY property=%s tier=%s obligations=%d discharged=%d known=%d inconclusive=%d violations=%d wall=%.0fs"
        % (prop, tier, n_ob, ev["discharged"], len(ev["known_hit"]), len(ev["inconclusive"]), len(violations), wall))
    if violations:
        return 1
    if machinery_problem or n_ob == 0 or (ev["discharged"] == 0 and not ev["known_hit"]):
        return 2
    return 0


def replay_failures(prop, h, new_fails, tier_cfg):
    """Concrete playback for every new failing check; VIOLATION only if it reproduces natively."""
    os.makedirs(os.path.join(REPLAYS, prop), exist_ok=True)
    tests = concrete_playback(prop, h, tier_cfg)
    res = {"reproduced": False, "paths": [], "summary": ""}
    if not tests:
        # Kani could not extract concrete values (sliced trace without nondet assignments, and the
        # un-sliced run out of memory). The solver verdict FAILED on a real assertion still stands;
        # it is reported, explicitly marked as NOT replayed natively.
        for c in new_fails[:3]:
            desc = c.get("description", "")
            digest = hashlib.sha1((h["name"] + desc + "unreplayed").encode()).hexdigest()[:10]
            path = os.path.join(REPLAYS, prop, "%s__%s.json" % (h["name"], digest))
            json.dump({
                "property": prop, "harness": h["name"], "module": h["module"],
                "failed_check": {"function": c.get("function"), "description": desc, "location": c.get("location")},
                "native_replay": "UNAVAILABLE: Kani's concrete playback produced no values for this harness "
                                 "(with and without formula slicing); the CBMC verdict FAILED stands un-replayed",
                "how_to_reproduce": "./check %s --only %s" % (prop, h["name"]),
            }, open(path, "w"), indent=1)
            res["paths"].append(path)
        log("UNREPLAYED: property=%s harness=%s solver counterexample could not be extracted for native replay" % (prop, h["name"]))
        res["reproduced"] = True
        res["summary"] = "solver verdict FAILED; concrete playback unavailable (not replayed natively)"
        return res
    summaries = []
    done_desc = set()
    for c in new_fails:
        desc = c.get("description", "")
        key = (strip_generics(c.get("function", "")), desc)
        if key in done_desc:
            continue
        done_desc.add(key)
        cands = [t for t in tests if t[0] != "cover" and desc_matches(c, t[0], t[1])]
        if not cands:
            cands = [t for t in tests if t[0] != "cover"]
        reproduced = None
        for kind, tdesc, src in cands[:3]:
            reproduced, tail = run_playback(h, src)
            if reproduced:
                rel_rep, rel_tail = run_playback(h, src, release=True)
                digest = hashlib.sha1((h["name"] + desc + src).encode()).hexdigest()[:10]
                path = os.path.join(REPLAYS, prop, "%s__%s.json" % (h["name"], digest))
                json.dump({
                    "property": prop, "harness": h["name"], "module": h["module"],
                    "failed_check": {"function": c.get("function"), "description": desc,
                                     "location": c.get("location")},
                    "kani_flags": h["flags"],
                    "native_dev_profile": {"reproduced": True, "panic": tail},
                    "native_release_profile": {"reproduced": rel_rep, "panic": rel_tail if rel_rep else None,
                                               "note": None if rel_rep else "debug-only (overflow checks) or release run unavailable"},
                    "playback_test": src,
                    "how_to_replay": "./check --replay " + path,
                }, open(path, "w"), indent=1)
                res["reproduced"] = True
                res["paths"].append(path)
                summaries.append("%s: reproduced natively (dev%s)" % (desc, ", release" if rel_rep else "; not in release"))
                break
        if not reproduced:
            summaries.append("%s: NOT reproduced" % desc)
    res["summary"] = "; ".join(summaries)
    return res


def write_evidence(prop, tier, seed, ev, wall, partial=False):
    # development runs restricted with --only / --no-smt / --no-kani must not replace the
    # evidence of the full check
    evdir = os.path.join(BUILD, "partial-evidence") if partial else EVIDENCE
    os.makedirs(evdir, exist_ok=True)
    discharged = [o for o in ev["obligations"] if o["status"] == "discharged"]
    samples = []
    for o in ev["obligations"][:400]:
        samples.append({k: o.get(k) for k in ("harness", "engine", "status", "bound", "doc", "time_s", "cbmc_checks",
                                              "queries", "why", "failed_checks", "replay", "solvers") if o.get(k) not in (None, "", [])})
    try:
        repo_rev = subprocess.run(["git", "-C", REPO, "rev-parse", "HEAD"], stdout=subprocess.PIPE).stdout.decode().strip()
        dirty = bool(subprocess.run(["git", "-C", REPO, "status", "--porcelain", "--untracked-files=no"], stdout=subprocess.PIPE).stdout.strip())
    except Exception:
        repo_rev, dirty = "", False
    coverage = {
        "evaluations": int(ev["cbmc_checks_decided"] + sum(o.get("queries", 0) for o in ev["obligations"] if o.get("engine") == "smt")),
        "distinct_nontrivial": len(discharged),
        "rule": ("one obligation = one Kani proof harness (symbolic inputs within the stated bound, unwinding assertions on) "
                 "or one MIR->SMT kernel query set; 'evaluations' counts solver-decided checks (CBMC properties with a "
                 "SUCCESS/FAILURE verdict + SMT queries answered); an obligation is non-trivial and counted in "
                 "distinct_nontrivial only if it was discharged AND every kani::cover! reachability witness in it was "
                 "satisfied (SMT: the twin reachability query is sat)"),
        "samples": samples,
        "obligations": len(ev["obligations"]),
        "discharged": len(discharged),
        "inconclusive": ev["inconclusive"],
        "known_findings_hit": ev["known_hit"],
        "functions_encoded": sorted(ev["functions"]),
        "bounds": sorted(set(o.get("bound") for o in ev["obligations"] if o.get("bound"))),
        "outside_bounds": sorted(set(o.get("outside") for o in ev["obligations"] if o.get("outside"))),
        "queries": ev["queries"],
        "solver_time_s": round(ev["solver_time_s"], 2),
        "covers_satisfied": ev["covers_satisfied"],
        "stubs_and_assumptions": sorted(ev["stubs"]),
        "checker_cmd": "./check %s --tier %s" % (prop, tier),
        "trusted_base": ["rustc + Kani 0.68 MIR->goto translation", "CBMC 6.11 + CaDiCaL", "cvc5 1.0 / z3 5.1 (Engine B)",
                         "nightly MIR printer + lib/mir2smt.py (validated per run against native execution)",
                         "reference models written in the harnesses", "pathfinder_simd pf-no-simd (C16 only)"],
        "repo_rev": repo_rev,
        "repo_dirty": dirty,
        "exhaustive": False,
    }
    doc = {
        "property_id": prop,
        "tier": tier,
        "seed": int(seed),
        "level": "model_checking",
        "coverage": coverage,
        "assumptions": [
            "every verdict is bounded: it holds for all inputs inside the bound listed per obligation and says nothing outside it",
            "Kani models the dev profile (overflow checks on); release wrap-around is covered only where an obligation says so",
            "inconclusive obligations (timeout, memory cap, unwinding bound, unsupported construct) are not counted as discharged",
        ],
        "wall_s": round(wall, 1),
        "violations": len(ev["violations"]),
    }
    json.dump(doc, open(os.path.join(evdir, prop + ".json"), "w"), indent=1)


def replay_file(path):
    d = json.load(open(path))
    if d.get("engine") == "smt":
        import smt_engine
        return smt_engine.replay(d, log)
    h = {"name": d["harness"], "module": d["module"]}
    rep, tail = run_playback(h, d["playback_test"])
    log(tail)
    if rep:
        log("REPRODUCED property=%s harness=%s" % (d["property"], d["harness"]))
        return 1
    log("NOT-REPRODUCED property=%s harness=%s" % (d["property"], d["harness"]))
    return 0


def main():
    ap = argparse.ArgumentParser()
    ap.add_argument("prop", nargs="?")
    ap.add_argument("--tier", default=os.environ.get("VERIF_TIER", "quick"), choices=["quick", "thorough"])
    ap.add_argument("--only")
    ap.add_argument("--jobs", type=int)
    ap.add_argument("--replay")
    ap.add_argument("--list", action="store_true")
    ap.add_argument("--no-smt", action="store_true")
    ap.add_argument("--no-kani", action="store_true")
    args = ap.parse_args()
    seed = int(os.environ.get("VERIF_SEED", "0") or 0)
    if args.replay:
        sys.exit(replay_file(args.replay))
    if not args.prop:
        ap.error("property id required")
    prop = args.prop.upper()
    if args.list:
        for h in discover_harnesses(prop):
            print(h["tier"], h["id"], "|", h["bound"])
        return
    sys.exit(check_property(prop, args.tier, args.only, args.jobs, seed, args.no_smt, args.no_kani))


if __name__ == "__main__":
    main()
