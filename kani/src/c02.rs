//! C02 - shaping is total and yields well-formed glyph runs: NOT CLAIMED (listed under
//! not_applicable in MANIFEST.json). This module keeps the one primitive that is within reach;
//! `./check C02` still runs it, but it is not registered as a check of the property.
//!
//! `Font::shape`, `gsub::apply`, `gpos::apply` and the script engines are outside every
//! bound (layout cache = std HashMap, Vec<RawGlyph> surgery; DESIGN.md section 4). What
//! is decided: glyph ids are clamped to the glyph count. `GlyphLayout::glyph_positions` on a
//! 2-glyph run with one symbolic attachment index ran out of 16 GB in under 3 minutes in
//! every variant tried (one placement kind per harness, concrete anchors).
//!
//! @funcs gsub::replace_missing_glyphs, GlyphLayout::glyph_positions, glyph_position::glyph_advance, GlyphLayout::{adjust_cursive_connections, position_marks}, Info::init_from_glyphs
//! @out feature / lookup application, ligature application, syllable machines, reordering, morx, map_glyphs, fonts with corrupt GSUB/GPOS, cyclic cursive chains; the matching primitives find_prev/find_next/find_nth/match_back/match_front are decided under C04 (c04_find_primitives, c04_context_*)

use crate::util::*;
use allsorts::gsub::{replace_missing_glyphs, GlyphOrigin, RawGlyph, RawGlyphFlags};

fn raw(g: u16, pos: u16) -> RawGlyph<()> {
    RawGlyph {
        unicodes: tinyvec::tiny_vec![],
        glyph_index: g,
        liga_component_pos: pos,
        glyph_origin: GlyphOrigin::Direct,
        flags: RawGlyphFlags::empty(),
        variation: None,
        extra_data: (),
    }
}

/// After replace_missing_glyphs every glyph id is below the glyph count (or 0), and
/// glyphs that were already in range are untouched.
// @bound run of 3 glyphs with any ids and ligature component positions; glyph count any u16
#[kani::proof]
#[kani::unwind(6)]
fn c02_replace_missing_glyphs() {
    let ids: [u16; 3] = kani::any();
    let pos: [u16; 3] = kani::any();
    let n: u16 = kani::any();
    let mut run = [raw(ids[0], pos[0]), raw(ids[1], pos[1]), raw(ids[2], pos[2])];
    replace_missing_glyphs(&mut run, n);
    let mut k = 0;
    while k < 3 {
        if ids[k] < n {
            assert!(run[k].glyph_index == ids[k] && run[k].liga_component_pos == pos[k]);
        } else {
            assert!(run[k].glyph_index == 0 && run[k].liga_component_pos == 0);
            assert!(run[k].unicodes.is_empty());
        }
        assert!(n == 0 || run[k].glyph_index < n);
        k += 1;
    }
    kani::cover!(ids[1] >= n && ids[0] < n, "middle glyph replaced");
    std::mem::forget(run);
}

/// The same clamp on a run of two (sizes are concrete per harness).
// @bound run of 2 glyphs with any ids; glyph count any u16
#[kani::proof]
#[kani::unwind(6)]
fn c02_replace_missing_glyphs_run_of_2() {
    let ids: [u16; 2] = kani::any();
    let n: u16 = kani::any();
    let mut run = [raw(ids[0], 7), raw(ids[1], 9)];
    replace_missing_glyphs(&mut run, n);
    assert!(n == 0 || (run[0].glyph_index < n && run[1].glyph_index < n));
    assert!(run[0].glyph_index == if ids[0] < n { ids[0] } else { 0 });
    assert!(run[1].glyph_index == if ids[1] < n { ids[1] } else { 0 });
    kani::cover!(ids[0] >= n && ids[1] < n, "first replaced only");
    std::mem::forget(run);
}
