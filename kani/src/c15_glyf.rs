//! C15 - reading is the inverse of writing: composite glyph records.
//!
//! @funcs glyf::CompositeGlyph::{write, read}, glyf::CompositeGlyphComponent::{write, read_dep}, glyf::CompositeGlyphs::read, glyf::CompositeGlyphArgument::write, glyf::CompositeGlyphScale::write, glyf::BoundingBox::{read, write}
//! @out simple glyphs (SimpleGlyph::read_dep / write: out of memory, DESIGN.md section 4), composites with more than 2 components, components with word arguments together with a 2x2 scale

use crate::util::*;
use allsorts::binary::read::ReadScope;
use allsorts::binary::write::{WriteBinary, WriteBuffer};
use allsorts::tables::glyf::{
    BoundingBox, CompositeGlyph, CompositeGlyphArgument, CompositeGlyphComponent, CompositeGlyphFlag,
    CompositeGlyphScale,
};
use allsorts::tables::F2Dot14;

const MORE: u16 = 0x0020;
const XY: u16 = 0x0002;
const INSTR: u16 = 0x0100;
const HAVE_SCALE: u16 = 0x0008;
const TWO_BY_TWO: u16 = 0x0080;

/// A two-component composite whose WE_HAVE_INSTRUCTIONS bit may sit on either component (the
/// glyf chapter defines the flag per component and the reader accepts it on any): the record
/// written is header, both components, and - iff any component carries the flag - the
/// instruction length and bytes (`c15_composite_glyph_read` is the reading direction).
// @bound composite glyph with 2 components (byte xy arguments; the second with a 2x2 transform), WE_HAVE_INSTRUCTIONS symbolic on each, glyph indices, arguments, the four transform entries, bounding box and 3 instruction bytes symbolic
#[kani::proof]
#[kani::unwind(8)]
fn c15_composite_glyph_write() {
    let i0: bool = kani::any();
    let i1: bool = kani::any();
    let f0 = MORE | XY | if i0 { INSTR } else { 0 };
    let f1 = XY | TWO_BY_TWO | if i1 { INSTR } else { 0 };
    let (g0, g1): (u16, u16) = (kani::any(), kani::any());
    let (a, b, c, d): (i8, i8, i8, i8) = (kani::any(), kani::any(), kani::any(), kani::any());
    let m: [i16; 4] = kani::any(); // xscale, scale01, scale10, yscale in file order
    let ins: [u8; 3] = kani::any();
    let bbox = BoundingBox { x_min: kani::any(), y_min: kani::any(), x_max: kani::any(), y_max: kani::any() };
    let glyph = CompositeGlyph {
        bounding_box: bbox,
        glyphs: vec![
            CompositeGlyphComponent {
                flags: CompositeGlyphFlag::from_bits_truncate(f0),
                glyph_index: g0,
                argument1: CompositeGlyphArgument::I8(a),
                argument2: CompositeGlyphArgument::I8(b),
                scale: None,
            },
            CompositeGlyphComponent {
                flags: CompositeGlyphFlag::from_bits_truncate(f1),
                glyph_index: g1,
                argument1: CompositeGlyphArgument::I8(c),
                argument2: CompositeGlyphArgument::I8(d),
                scale: Some(CompositeGlyphScale::Matrix([
                    [F2Dot14::from_raw(m[0]), F2Dot14::from_raw(m[1])],
                    [F2Dot14::from_raw(m[2]), F2Dot14::from_raw(m[3])],
                ])),
            },
        ],
        instructions: if i0 || i1 { &ins[..] } else { &[] },
        phantom_points: None,
    };
    let mut out = WriteBuffer::new();
    CompositeGlyph::write(&mut out, glyph).unwrap();
    let bytes = out.bytes();
    let body = 10 + 6 + 14;
    assert!(bytes.len() == if i0 || i1 { body + 2 + 3 } else { body }, "length of the written record");
    assert!(be16(bytes, 0) == 0xFFFF);
    assert!(be16(bytes, 2) == bbox.x_min as u16 && be16(bytes, 8) == bbox.y_max as u16);
    assert!(be16(bytes, 10) == f0 && be16(bytes, 12) == g0 && bytes[14] == a as u8 && bytes[15] == b as u8);
    assert!(be16(bytes, 16) == f1 && be16(bytes, 18) == g1 && bytes[20] == c as u8 && bytes[21] == d as u8);
    assert!(be16(bytes, 22) == m[0] as u16 && be16(bytes, 24) == m[1] as u16, "2x2 transform: xscale, scale01");
    assert!(be16(bytes, 26) == m[2] as u16 && be16(bytes, 28) == m[3] as u16, "2x2 transform: scale10, yscale");
    if i0 || i1 {
        assert!(be16(bytes, 30) == 3 && bytes[32] == ins[0] && bytes[34] == ins[2], "instructions written");
    }
    kani::cover!(i0 && !i1, "instructions flagged on the first component only");
    kani::cover!(!i0 && i1, "instructions flagged on the last component only");
    kani::cover!(!i0 && !i1, "no instructions");
    std::mem::forget(out);
}

/// Reading direction: a two-component record whose WE_HAVE_INSTRUCTIONS bit sits on either
/// component is followed by the instruction length and bytes, which the reader must consume
/// and return; without the bit on any component there are none.
// @bound composite record with 2 components (byte xy arguments; the second with a 2x2 transform), WE_HAVE_INSTRUCTIONS symbolic on each, all other bytes symbolic, 2 instruction bytes
#[kani::proof]
#[kani::unwind(8)]
fn c15_composite_glyph_read() {
    let i0: bool = kani::any();
    let i1: bool = kani::any();
    let f0 = MORE | XY | if i0 { INSTR } else { 0 };
    let f1 = XY | TWO_BY_TWO | if i1 { INSTR } else { 0 };
    let mut buf: [u8; 8 + 6 + 14 + 2 + 2] = kani::any();
    put16(&mut buf, 8, f0);
    put16(&mut buf, 14, f1);
    put16(&mut buf, 28, 2); // instruction length, present only when flagged
    let glyph = ReadScope::new(&buf).read::<CompositeGlyph<'_>>().unwrap();
    assert!(glyph.glyphs.len() == 2);
    assert!(glyph.glyphs[0].glyph_index == be16(&buf, 10) && glyph.glyphs[1].glyph_index == be16(&buf, 16));
    assert!(glyph.glyphs[0].flags.bits() == f0 && glyph.glyphs[1].flags.bits() == f1);
    match glyph.glyphs[1].scale {
        Some(CompositeGlyphScale::Matrix(m)) => {
            assert!(m[0][0].raw_value() as u16 == be16(&buf, 20) && m[0][1].raw_value() as u16 == be16(&buf, 22), "xscale, scale01");
            assert!(m[1][0].raw_value() as u16 == be16(&buf, 24) && m[1][1].raw_value() as u16 == be16(&buf, 26), "scale10, yscale");
        }
        _ => assert!(false, "2x2 transform expected"),
    }
    if i0 || i1 {
        assert!(glyph.instructions.len() == 2 && glyph.instructions[0] == buf[30] && glyph.instructions[1] == buf[31], "instructions read");
    } else {
        assert!(glyph.instructions.is_empty());
    }
    kani::cover!(i0 && !i1, "instructions flagged on the first component only");
    kani::cover!(!i0 && !i1, "no instructions");
    std::mem::forget(glyph);
}
