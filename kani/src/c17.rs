//! C17 - text preprocessing only reorders marks (thin claim: the run structure around the sort,
//! not the sort itself and not the class table).
//!
//! `preprocess_text` hands every maximal run of combining marks to std's stable sort. CBMC does
//! not get through `core::slice::sort::stable::sort` on a slice whose LENGTH is symbolic (the
//! run boundaries depend on the symbolic characters, so the driftsort branch for long slices is
//! explored too: no answer in 15-25 min, DESIGN.md section 4). The harnesses therefore replace
//! that one function by an insertion sort written here - a stable sort by the same comparison,
//! which is exactly the documented contract of `sort_by_key` / `sort_by` - and decide what the
//! crate's own code does around it: which characters are handed to the sort together, with which
//! key, for which script tags.
//!
//! @funcs scripts::preprocess_text, ScriptType::from(u32), unicode::mcc::{sort_by_modified_combining_class, modified_combining_class}, scripts::arabic::{reorder_marks, reorder_marks_shadda, reorder_marks_other_combining, is_modifier_combining_mark}, <[char]>::split_mut
//! @stub core::slice::sort::stable::sort -> insertion sort by the same comparison (stable), stated contract of slice::sort_by / sort_by_key
//! @stub unicode_canonical_combining_class::get_canonical_combining_class (third-party two-level table, 10 min without an answer when indexed by a symbolic char) -> the Unicode classes of the 8-character alphabet used here, 0 for anything else
//! @out the contents of the modified-combining-class table (the property does not pin them; the crate's own modified_combining_class is used as the class function of the oracle), std's sort, texts of more than 3 characters, the exact order the Arabic shadda / modifier-mark rules produce, the Thai/Lao SARA AM split, Indic and Khmer decompositions, the Bengali and Kannada special cases and dotted-circle insertion (Vec::insert on a symbolic condition: not attempted in the time available)

use allsorts::scripts::preprocess_text;
use allsorts::tag;
use allsorts::unicode::mcc::{modified_combining_class, ModifiedCombiningClass};

/// Replacement for `core::slice::sort::stable::sort`: insertion sort, stable.
pub fn stub_stable_sort<T, F: FnMut(&T, &T) -> bool, BufT: core::slice::sort::stable::BufGuard<T>>(
    v: &mut [T],
    is_less: &mut F,
) {
    let mut i = 1;
    while i < v.len() {
        let mut j = i;
        while j > 0 && is_less(&v[j], &v[j - 1]) {
            v.swap(j - 1, j);
            j -= 1;
        }
        i += 1;
    }
}

const N: usize = 3;

/// The alphabet the harnesses draw from: a base letter (fast path below U+0300), a base above it,
/// and marks of six different canonical classes (two of them equal, for stability).
const ALPHABET: [char; 8] = [
    'a',        // base, fast path
    '\u{0628}', // ARABIC LETTER BEH, base (class 0 through the table)
    '\u{0301}', // COMBINING ACUTE ACCENT, 230
    '\u{0300}', // COMBINING GRAVE ACCENT, 230
    '\u{0323}', // COMBINING DOT BELOW, 220
    '\u{0651}', // ARABIC SHADDA, 33
    '\u{064B}', // ARABIC FATHATAN, 27
    '\u{0E38}', // THAI CHARACTER SARA U, 103
];

/// Replacement for the third-party class table, restricted to `ALPHABET` (values from
/// UnicodeData.txt).
pub fn stub_ccc(c: char) -> unicode_canonical_combining_class::CanonicalCombiningClass {
    use unicode_canonical_combining_class::CanonicalCombiningClass as C;
    match c {
        '\u{0301}' | '\u{0300}' => C::Above,
        '\u{0323}' => C::Below,
        '\u{0651}' => C::CCC33,
        '\u{064B}' => C::CCC27,
        '\u{0E38}' => C::CCC103,
        _ => C::NotReordered,
    }
}

fn any_text() -> [char; N] {
    let k: [usize; N] = kani::any();
    kani::assume(k[0] < 8 && k[1] < 8 && k[2] < 8);
    [ALPHABET[k[0]], ALPHABET[k[1]], ALPHABET[k[2]]]
}

fn is_base(c: char) -> bool {
    modified_combining_class(c) == ModifiedCombiningClass::NotReordered
}

/// Stable sort of positions i < j of `out` by `key` (one compare-exchange; equal keys stay).
fn order(out: &mut [char; N], key: &mut [u8; N], i: usize, j: usize) {
    if key[j] < key[i] {
        out.swap(i, j);
        key.swap(i, j);
    }
}

/// The property's reference, written without loops (symbolic loop bounds in the oracle made
/// CBMC unroll it 6 x 6 x 6 times): bases keep their place, every maximal run of marks is sorted
/// stably by class. With 3 characters the runs are: all three, the first two, the last two, or
/// single marks. The class of each input character is looked up once.
fn reference(input: [char; N]) -> [char; N] {
    let mut out = input;
    let mut key = [
        modified_combining_class(input[0]) as u8,
        modified_combining_class(input[1]) as u8,
        modified_combining_class(input[2]) as u8,
    ];
    let mark = [key[0] != 0, key[1] != 0, key[2] != 0];
    if mark[0] && mark[1] && mark[2] {
        // insertion sort of three: stable
        order(&mut out, &mut key, 0, 1);
        order(&mut out, &mut key, 1, 2);
        order(&mut out, &mut key, 0, 1);
    } else if mark[0] && mark[1] {
        order(&mut out, &mut key, 0, 1);
    } else if mark[1] && mark[2] {
        order(&mut out, &mut key, 1, 2);
    }
    out
}

fn sorted_mark_runs(script: u32) {
    let input = any_text();
    let mut cs = vec![input[0], input[1], input[2]];
    preprocess_text(&mut cs, script);
    assert!(cs.len() == N, "length unchanged");
    let want = reference(input);
    assert!(cs[0] == want[0] && cs[1] == want[1] && cs[2] == want[2], "mark runs sorted stably, bases fixed");
    kani::cover!(input[0] == 'a' && cs[1] != input[1], "two marks swapped after a base");
    kani::cover!(input[0] == '\u{0301}' && input[1] == '\u{0300}' && input[2] == '\u{0323}' && cs[0] == '\u{0323}', "three marks: lower class first, equal classes keep their order");
    kani::cover!(input[1] == 'a' && input[0] == '\u{0301}' && input[2] == '\u{0323}', "marks separated by a base");
    std::mem::forget(cs);
}

// The script tag is concrete per harness: with a symbolic tag the dispatch in `preprocess_text`
// is not constant-folded and every script's preprocessing (Indic and Khmer decompositions with
// their Vec::insert loops included) enters the formula - no answer in 10 min even for Myanmar,
// whose arm is empty.

/// Scripts without decompositions: the result is the input with each maximal run of combining
/// marks sorted stably by modified combining class; characters of class "not reordered" keep
/// their position and nothing moves across them.
// @bound text of 3 characters drawn from an 8-character alphabet (2 bases, marks of classes 230, 230, 220, 33, 27, 103); script tag latn
#[kani::proof]
#[kani::unwind(6)]
#[kani::stub(core::slice::sort::stable::sort, crate::c17::stub_stable_sort)]
#[kani::stub(unicode_canonical_combining_class::get_canonical_combining_class, crate::c17::stub_ccc)]
fn c17_latin_sorts_mark_runs() {
    sorted_mark_runs(tag::LATN);
}

/// Syriac takes the same path.
// @bound text of 3 characters drawn from an 8-character alphabet (2 bases, marks of classes 230, 230, 220, 33, 27, 103); script tag syrc
#[kani::proof]
#[kani::unwind(6)]
#[kani::stub(core::slice::sort::stable::sort, crate::c17::stub_stable_sort)]
#[kani::stub(unicode_canonical_combining_class::get_canonical_combining_class, crate::c17::stub_ccc)]
fn c17_syriac_sorts_mark_runs() {
    sorted_mark_runs(tag::SYRC);
}

/// A tag the library does not know is treated like the default scripts.
// @bound text of 3 characters drawn from an 8-character alphabet (2 bases, marks of classes 230, 230, 220, 33, 27, 103); script tag 'zzzz'
#[kani::proof]
#[kani::unwind(6)]
#[kani::stub(core::slice::sort::stable::sort, crate::c17::stub_stable_sort)]
#[kani::stub(unicode_canonical_combining_class::get_canonical_combining_class, crate::c17::stub_ccc)]
fn c17_unknown_script_sorts_mark_runs() {
    sorted_mark_runs(0x7A7A_7A7A);
}

/// Myanmar text is not preprocessed at all.
// @bound text of 3 characters drawn from an 8-character alphabet (2 bases, marks of classes 230, 230, 220, 33, 27, 103); tag mymr
#[kani::proof]
#[kani::unwind(6)]
#[kani::stub(core::slice::sort::stable::sort, crate::c17::stub_stable_sort)]
#[kani::stub(unicode_canonical_combining_class::get_canonical_combining_class, crate::c17::stub_ccc)]
fn c17_myanmar_untouched() {
    let input = any_text();
    let mut cs = vec![input[0], input[1], input[2]];
    preprocess_text(&mut cs, tag::MYMR);
    assert!(cs.len() == N && cs[0] == input[0] && cs[1] == input[1] && cs[2] == input[2]);
    kani::cover!(true, "ran");
    std::mem::forget(cs);
}

/// Arabic (AMTRA): whatever order the shadda / modifier-mark rules choose, the result is a
/// permutation of the input in which base characters keep their position and every mark stays
/// inside its own run of marks.
// @tier thorough
// @bound text of 3 characters drawn from an 8-character alphabet (2 bases, marks of classes 230, 230, 220, 33, 27, 103); tag arab
#[kani::proof]
#[kani::unwind(6)]
#[kani::stub(core::slice::sort::stable::sort, crate::c17::stub_stable_sort)]
#[kani::stub(unicode_canonical_combining_class::get_canonical_combining_class, crate::c17::stub_ccc)]
fn c17_arabic_marks_stay_in_their_run() {
    let input = any_text();
    let mut cs = vec![input[0], input[1], input[2]];
    preprocess_text(&mut cs, tag::ARAB);
    assert!(cs.len() == N, "length unchanged");
    let out = [cs[0], cs[1], cs[2]];
    // permutation: one of the 6 arrangements of the input
    let p = |a: usize, b: usize, c: usize| out[0] == input[a] && out[1] == input[b] && out[2] == input[c];
    assert!(p(0, 1, 2) || p(0, 2, 1) || p(1, 0, 2) || p(1, 2, 0) || p(2, 0, 1) || p(2, 1, 0), "permutation of the input");
    let base = [is_base(input[0]), is_base(input[1]), is_base(input[2])];
    assert!(!base[0] || out[0] == input[0], "a base character moved");
    assert!(!base[1] || out[1] == input[1], "a base character moved");
    assert!(!base[2] || out[2] == input[2], "a base character moved");
    assert!(base[0] || !is_base(out[0]), "a mark left its run");
    assert!(base[1] || !is_base(out[1]), "a mark left its run");
    assert!(base[2] || !is_base(out[2]), "a mark left its run");
    // a base in the middle separates two one-mark runs: nothing can move
    if base[1] {
        assert!(out[0] == input[0] && out[2] == input[2], "a mark crossed a base");
    }
    // the shadda rule on a run of marks after a base: a shadda ends up first in the run
    if base[0] && !base[1] && !base[2] && (input[1] == '\u{0651}' || input[2] == '\u{0651}') {
        assert!(out[1] == '\u{0651}', "shadda moves to the start of its run");
    }
    kani::cover!(out[0] != input[0], "marks reordered");
    kani::cover!(input[0] == '\u{0628}' && input[1] == '\u{064B}' && input[2] == '\u{0651}', "beh + fathatan + shadda");
    std::mem::forget(cs);
}
