//! C11 - WOFF2 decoding, checked on the decompressed streams through the public
//! `ReadBinary`/`ReadBinaryDep` implementations (brotli itself is outside).
//!
//! References are restated from the W3C WOFF2 recommendation (255UInt16,
//! UIntBase128, known-tag table, transformLength rule, triplet encoding) -
//! nothing is taken from allsorts' `lut.rs`.
//!
//! @funcs woff2::PackedU16::read, woff2::U32Base128::read, woff2::TableDirectoryEntry::read_dep, woff2::TransformedGlyphTable::read, Woff2GlyfTable::read_dep, Woff2GlyfTable::decode_simple_glyph, compute_end_pts_of_contours, decode_coordinates, woff2::lut::COORD_LUT, XYTriplet::{dx,dy}, BitSlice::get, Woff2HmtxTable::read_dep, SimpleGlyph::bounding_box
//! @out the COMPUTED bounding box of a decoded glyph (BoundingBox::from_points over 2 points: no answer in 40 min; explicit boxes are checked), brotli decompression, Woff2Font::read, collection directory, the eager table provider (HashMap), loca reconstruction, composite glyphs with more than one component or scale fields, glyphs with more than 2 points or more than 1 contour (2 contours in the thorough tier), more than 2 glyphs (32 EMPTY glyphs with a fully concrete table already give no answer in 10 min, so the bbox-bitmap length formula is only exercised for 1 glyph)

use crate::util::*;
use allsorts::binary::read::{ReadArrayCow, ReadScope};
use allsorts::error::ParseError;
use allsorts::tables::glyf::{
    BoundingBox, EmptyGlyph, GlyfRecord, GlyfTable, Glyph, Point, SimpleGlyph, SimpleGlyphFlag,
};
use allsorts::tables::loca::LocaTable;
use allsorts::tables::HmtxTable;
use allsorts::woff2::{
    PackedU16, TableDirectoryEntry, U32Base128, Woff2GlyfTable, Woff2HmtxTable,
};

/// 255UInt16 (W3C WOFF2 section 4.1): every 3-byte input, truncated anywhere.
// @bound any 4 bytes truncated to any length
#[kani::proof]
#[kani::unwind(6)]
fn c11_255uint16() {
    let buf: [u8; 4] = kani::any();
    let len = any_len(4);
    let mut ctxt = ReadScope::new(&buf[..len]).ctxt();
    let got = ctxt.read::<PackedU16>();
    let left = ctxt.scope().data().len();
    // reference
    let reference: Option<(u16, usize)> = if len == 0 {
        None
    } else {
        match buf[0] {
            253 => {
                if len >= 3 {
                    Some((((buf[1] as u16) << 8) | buf[2] as u16, 3))
                } else {
                    None
                }
            }
            254 => {
                if len >= 2 {
                    Some((buf[1] as u16 + 506, 2))
                } else {
                    None
                }
            }
            255 => {
                if len >= 2 {
                    Some((buf[1] as u16 + 253, 2))
                } else {
                    None
                }
            }
            c => Some((c as u16, 1)),
        }
    };
    match (got, reference) {
        (Ok(v), Some((rv, used))) => {
            assert!(v == rv);
            assert!(left == len - used);
            kani::cover!(v == 762, "largest two-byte form");
        }
        (Err(e), None) => {
            assert!(e == ParseError::BadEof);
            kani::cover!(len == 2, "truncated word form");
        }
        _ => assert!(false),
    }
}

/// UIntBase128 (W3C WOFF2 section 4.1), incl. the three rejection rules:
/// leading zero byte 0x80, overflow of 32 bits, more than 5 bytes.
// @bound any 6 bytes truncated to any length
#[kani::proof]
#[kani::unwind(8)]
fn c11_uintbase128() {
    let buf: [u8; 6] = kani::any();
    let len = any_len(6);
    let mut ctxt = ReadScope::new(&buf[..len]).ctxt();
    let got = ctxt.read::<U32Base128>();
    let left = ctxt.scope().data().len();
    // reference: the pseudo-code of the recommendation
    #[derive(PartialEq)]
    enum R {
        Val(u32, usize),
        Bad,
        Eof,
    }
    let mut accum: u32 = 0;
    let mut res = R::Bad;
    let mut i = 0;
    while i < 5 {
        if i >= len {
            res = R::Eof;
            break;
        }
        let b = buf[i];
        if i == 0 && b == 0x80 {
            res = R::Bad;
            break;
        }
        if accum & 0xFE00_0000 != 0 {
            res = R::Bad;
            break;
        }
        accum = (accum << 7) | (b & 0x7F) as u32;
        if b & 0x80 == 0 {
            res = R::Val(accum, i + 1);
            break;
        }
        i += 1;
    }
    match got {
        Ok(v) => match res {
            R::Val(rv, used) => {
                assert!(v == rv && left == len - used);
                kani::cover!(used == 5 && v > 0x0FFF_FFFF, "five byte value");
            }
            _ => assert!(false),
        },
        Err(ParseError::BadEof) => assert!(res == R::Eof),
        Err(ParseError::BadValue) => {
            assert!(res == R::Bad);
            kani::cover!(buf[0] == 0x80, "leading zero rejected");
            kani::cover!(buf[0] != 0x80 && len >= 5 && buf[4] & 0x80 == 0, "overflow rejected");
        }
        Err(_) => assert!(false),
    }
}

const KNOWN_TAGS: [&[u8; 4]; 63] = [
    b"cmap", b"head", b"hhea", b"hmtx", b"maxp", b"name", b"OS/2", b"post", b"cvt ", b"fpgm",
    b"glyf", b"loca", b"prep", b"CFF ", b"VORG", b"EBDT", b"EBLC", b"gasp", b"hdmx", b"kern",
    b"LTSH", b"PCLT", b"VDMX", b"vhea", b"vmtx", b"BASE", b"GDEF", b"GPOS", b"GSUB", b"EBSC",
    b"JSTF", b"MATH", b"CBDT", b"CBLC", b"COLR", b"CPAL", b"SVG ", b"sbix", b"acnt", b"avar",
    b"bdat", b"bloc", b"bsln", b"cvar", b"fdsc", b"feat", b"fmtx", b"fvar", b"gvar", b"hsty",
    b"just", b"lcar", b"mort", b"morx", b"opbd", b"prop", b"trak", b"Zapf", b"Silf", b"Glat",
    b"Gloc", b"Feat", b"Sill",
];

/// Table directory entry: flag byte -> tag (known-tag table or explicit tag),
/// transform version -> presence of transformLength, for every flag byte.
// @bound any 12 bytes (lengths restricted to one-byte UIntBase128 values so that the entry shape is decided by the flag byte alone)
#[kani::proof]
#[kani::unwind(8)]
fn c11_directory_entry() {
    let buf: [u8; 12] = kani::any();
    let flags = buf[0];
    let offset: usize = kani::any();
    let mut ctxt = ReadScope::new(&buf).ctxt();
    let idx = (flags & 0x3F) as usize;
    let mut pos = 1usize;
    let tag = if idx == 63 {
        pos += 4;
        be32(&buf, 1)
    } else {
        let t = KNOWN_TAGS[idx];
        ((t[0] as u32) << 24) | ((t[1] as u32) << 16) | ((t[2] as u32) << 8) | t[3] as u32
    };
    // one-byte lengths
    kani::assume(buf[pos] < 0x80 && buf[pos + 1] < 0x80);
    let version = flags >> 6;
    let glyf = 0x676C_7966u32;
    let loca = 0x6C6F_6361u32;
    let transformed = if tag == glyf || tag == loca {
        version != 3
    } else {
        version != 0
    };
    let entry = ctxt.read_dep::<TableDirectoryEntry>(offset).unwrap();
    assert!(entry.tag == tag);
    assert!(entry.offset == offset);
    assert!(entry.orig_length == buf[pos] as u32);
    if transformed {
        assert!(entry.transform_length == Some(buf[pos + 1] as u32));
        assert!(ctxt.scope().data().len() == 12 - pos - 2);
    } else {
        assert!(entry.transform_length.is_none());
        assert!(ctxt.scope().data().len() == 12 - pos - 1);
    }
    kani::cover!(idx == 63 && transformed, "arbitrary tag, transformed");
    kani::cover!(tag == glyf && version == 3, "null-transformed glyf");
    kani::cover!(idx == 3 && version == 1, "transformed hmtx");
}

// ---------------------------------------------------------------------------
// transformed glyf table
// ---------------------------------------------------------------------------

fn with_sign(flag: u32, base: i32) -> i32 {
    if flag & 1 != 0 {
        base
    } else {
        -base
    }
}

/// W3C triplet decoding (section 5.2), written as arithmetic on the flag.
/// Returns (bytes used, dx, dy).
fn triplet(flag: u8, d: &[u8]) -> (usize, i32, i32) {
    let f = (flag & 0x7F) as u32;
    if f < 10 {
        (1, 0, with_sign(f, (((f & 14) << 7) + d[0] as u32) as i32))
    } else if f < 20 {
        (1, with_sign(f, ((((f - 10) & 14) << 7) + d[0] as u32) as i32), 0)
    } else if f < 84 {
        let b0 = f - 20;
        let b1 = d[0] as u32;
        (
            1,
            with_sign(f, (1 + (b0 & 0x30) + (b1 >> 4)) as i32),
            with_sign(f >> 1, (1 + ((b0 & 0x0C) << 2) + (b1 & 0x0F)) as i32),
        )
    } else if f < 120 {
        let b0 = f - 84;
        (
            2,
            with_sign(f, (1 + ((b0 / 12) << 8) + d[0] as u32) as i32),
            with_sign(f >> 1, (1 + (((b0 % 12) >> 2) << 8) + d[1] as u32) as i32),
        )
    } else if f < 124 {
        let b2 = d[1] as u32;
        (
            3,
            with_sign(f, (((d[0] as u32) << 4) + (b2 >> 4)) as i32),
            with_sign(f >> 1, (((b2 & 0x0F) << 8) + d[2] as u32) as i32),
        )
    } else {
        (
            4,
            with_sign(f, (((d[0] as u32) << 8) + d[1] as u32) as i32),
            with_sign(f >> 1, (((d[2] as u32) << 8) + d[3] as u32) as i32),
        )
    }
}

const ENTRY: TableDirectoryEntry = TableDirectoryEntry {
    tag: 0x676C_7966,
    offset: 0,
    orig_length: 0,
    transform_length: Some(1),
};

/// Lay out a transformed glyf table for ONE simple glyph with one contour.
/// Stream sizes are concrete; `npts` points; `coord` = total coordinate bytes;
/// `ninstr` instruction bytes; `bbox` = explicit bounding box present.
/// Returns the positions of the flag stream, glyph stream, bitmap, bbox stream
/// and instruction stream so the caller can fill in symbolic bytes.
struct Layout {
    total: usize,
    flags_at: usize,
    glyph_at: usize,
    bitmap_at: usize,
    bbox_at: usize,
    instr_at: usize,
}

fn layout_one_glyph(buf: &mut [u8], npts: usize, coord: usize, ninstr: usize, bbox: bool) -> Layout {
    let ncont = 2usize; // one i16
    let npoints_stream = 1usize; // one 255UInt16 < 253
    let flag_stream = npts;
    let glyph_stream = coord + 1; // + instruction length (255UInt16 < 253)
    let bbox_stream = 4 + if bbox { 8 } else { 0 };
    put32(buf, 0, 0); // version
    put16(buf, 4, 1); // numGlyphs
    put16(buf, 6, 0); // indexFormat
    put32(buf, 8, ncont as u32);
    put32(buf, 12, npoints_stream as u32);
    put32(buf, 16, flag_stream as u32);
    put32(buf, 20, glyph_stream as u32);
    put32(buf, 24, 0); // composite
    put32(buf, 28, bbox_stream as u32);
    put32(buf, 32, ninstr as u32);
    let mut at = 36;
    put16(buf, at, 1); // numberOfContours = 1
    at += ncont;
    buf[at] = npts as u8;
    at += npoints_stream;
    let flags_at = at;
    at += flag_stream;
    let glyph_at = at;
    buf[glyph_at + coord] = ninstr as u8;
    at += glyph_stream;
    let bitmap_at = at;
    buf[at] = if bbox { 0x80 } else { 0 };
    buf[at + 1] = 0;
    buf[at + 2] = 0;
    buf[at + 3] = 0;
    at += 4;
    let bbox_at = at;
    if bbox {
        at += 8;
    }
    let instr_at = at;
    at += ninstr;
    Layout { total: at, flags_at, glyph_at, bitmap_at, bbox_at, instr_at }
}

fn only_simple<'a, 'b>(table: &'b GlyfTable<'a>) -> &'b SimpleGlyph<'a> {
    assert!(table.records().len() == 1);
    match &table.records()[0] {
        GlyfRecord::Parsed(Glyph::Simple(g)) => g,
        _ => panic!("expected a parsed simple glyph"),
    }
}

macro_rules! triplet_harness {
    ($name:ident, $nbytes:expr, $lo:expr, $hi:expr) => {
        #[kani::proof]
        #[kani::unwind(8)]
        fn $name() {
            const NB: usize = $nbytes;
            // explicit bounding box and two instruction bytes, exactly like the two-point
            // harness below (the computed bounding box, BoundingBox::from_points, pushes the
            // run beyond the 600 s cap)
            let mut buf = [0u8; 36 + 2 + 1 + 1 + NB + 1 + 4 + 8 + 2];
            let lay = layout_one_glyph(&mut buf, 1, NB, 2, true);
            assert!(lay.total == buf.len());
            let flag: u8 = kani::any();
            kani::assume((flag & 0x7F) >= $lo && (flag & 0x7F) < $hi);
            buf[lay.flags_at] = flag;
            let data: [u8; NB] = kani::any();
            let mut k = 0;
            while k < NB {
                buf[lay.glyph_at + k] = data[k];
                k += 1;
            }
            let loca = LocaTable::empty();
            let table = ReadScope::new(&buf)
                .read_dep::<Woff2GlyfTable>((&ENTRY, &loca))
                .unwrap();
            let g = only_simple(&table);
            let (used, dx, dy) = triplet(flag, &data);
            assert!(used == NB);
            // glyph coordinates are int16: a conforming encoder never emits a larger magnitude
            // (only the four-byte class can express one; hostile values are a C01 matter)
            kani::assume(dx >= -32767 && dx <= 32767 && dy >= -32767 && dy <= 32767);
            assert!(g.coordinates.len() == 1);
            let (f, Point(x, y)) = g.coordinates[0];
            assert!(x as i32 == dx && y as i32 == dy);
            // on-curve iff the most significant flag bit is clear
            assert!(f.contains(SimpleGlyphFlag::ON_CURVE_POINT) == (flag & 0x80 == 0));
            assert!(g.end_pts_of_contours.len() == 1 && g.end_pts_of_contours[0] == 0);
            kani::cover!(dx < 0 && dy > 0, "mixed signs");
            std::mem::forget(table);
        }
    };
}

// @bound 1 glyph x 1 contour x 1 point; EVERY flag byte with (flag & 0x7F) in 0..84 and every data byte (one-byte triplets)
triplet_harness!(c11_triplet_1byte, 1, 0, 84);
// @bound 1 glyph x 1 contour x 1 point; every flag with (flag & 0x7F) in 84..120 and all 2^16 data values (two-byte triplets)
triplet_harness!(c11_triplet_2byte, 2, 84, 120);
// @bound 1 glyph x 1 contour x 1 point; every flag with (flag & 0x7F) in 120..124 and all 2^24 data values (three-byte triplets)
triplet_harness!(c11_triplet_3byte, 3, 120, 124);
// @tier thorough
// @bound 1 glyph x 1 contour x 1 point; every flag with (flag & 0x7F) in 124..128 and all data values whose magnitudes fit int16 (four-byte triplets)
triplet_harness!(c11_triplet_4byte, 4, 124, 128);

/// Two points: coordinates are cumulative deltas, endPtsOfContours is nPoints-1,
/// instruction bytes are passed through, an explicit bounding box wins over the
/// computed one (bit 0 of the bbox bitmap is the most significant bit of byte 0).
// @bound 1 glyph x 1 contour x 2 points with one-byte triplets (flags 0..84 each, symbolic), 2 symbolic instruction bytes, explicit bounding box with 8 symbolic bytes
#[kani::proof]
#[kani::unwind(10)]
fn c11_glyf_two_points_explicit_bbox() {
    let mut buf = [0u8; 36 + 2 + 1 + 2 + 2 + 1 + 4 + 8 + 2];
    let lay = layout_one_glyph(&mut buf, 2, 2, 2, true);
    assert!(lay.total == buf.len());
    let f0: u8 = kani::any();
    let f1: u8 = kani::any();
    kani::assume((f0 & 0x7F) < 84 && (f1 & 0x7F) < 84);
    buf[lay.flags_at] = f0;
    buf[lay.flags_at + 1] = f1;
    let d: [u8; 2] = kani::any();
    buf[lay.glyph_at] = d[0];
    buf[lay.glyph_at + 1] = d[1];
    let bb: [u8; 8] = kani::any();
    let mut k = 0;
    while k < 8 {
        buf[lay.bbox_at + k] = bb[k];
        k += 1;
    }
    let ins: [u8; 2] = kani::any();
    buf[lay.instr_at] = ins[0];
    buf[lay.instr_at + 1] = ins[1];

    let loca = LocaTable::empty();
    let table = ReadScope::new(&buf)
        .read_dep::<Woff2GlyfTable>((&ENTRY, &loca))
        .unwrap();
    let g = only_simple(&table);
    let (_, dx0, dy0) = triplet(f0, &d[0..1]);
    let (_, dx1, dy1) = triplet(f1, &d[1..2]);
    assert!(g.coordinates.len() == 2);
    let (fl0, Point(x0, y0)) = g.coordinates[0];
    let (fl1, Point(x1, y1)) = g.coordinates[1];
    assert!(x0 as i32 == dx0 && y0 as i32 == dy0);
    assert!(x1 as i32 == dx0 + dx1 && y1 as i32 == dy0 + dy1);
    assert!(fl0.contains(SimpleGlyphFlag::ON_CURVE_POINT) == (f0 & 0x80 == 0));
    assert!(fl1.contains(SimpleGlyphFlag::ON_CURVE_POINT) == (f1 & 0x80 == 0));
    assert!(g.end_pts_of_contours.len() == 1 && g.end_pts_of_contours[0] == 1);
    assert!(g.instructions.len() == 2 && g.instructions[0] == ins[0] && g.instructions[1] == ins[1]);
    // explicit bbox: xMin, yMin, xMax, yMax as stored
    assert!(g.bounding_box.x_min == be16(&bb, 0) as i16);
    assert!(g.bounding_box.y_min == be16(&bb, 2) as i16);
    assert!(g.bounding_box.x_max == be16(&bb, 4) as i16);
    assert!(g.bounding_box.y_max == be16(&bb, 6) as i16);
    kani::cover!(x1 < x0, "second point left of the first");
    std::mem::forget(table);
}

/// A composite glyph in a transformed glyf table: the component record is taken from the
/// composite stream, the instruction length (255UInt16) from the GLYPH stream, the
/// instructions from the instruction stream, and the mandatory explicit bounding box
/// from the bbox stream.
// @bound 1 composite glyph with one component (flags 0x0102: xy values, byte arguments, WE_HAVE_INSTRUCTIONS; or 0x0002 without instructions), symbolic glyph index, arguments, bbox and 2 instruction bytes
#[kani::proof]
#[kani::unwind(10)]
fn c11_composite_glyph() {
    let with_instr: bool = kani::any();
    // header 36 | nContour 2 | composite 6 | glyph stream 1 | bitmap 4 + bbox 8 | instructions 2
    let mut buf = [0u8; 36 + 2 + 6 + 1 + 12 + 2];
    put16(&mut buf, 4, 1);
    put32(&mut buf, 8, 2); // nContour stream
    put32(&mut buf, 20, 1); // glyph stream
    put32(&mut buf, 24, 6); // composite stream
    put32(&mut buf, 28, 12); // bbox stream
    put32(&mut buf, 32, 2); // instruction stream
    put16(&mut buf, 36, 0xFFFF); // numberOfContours = -1
    let glyph_at = 38; // the streams follow in header order: nContour, nPoints(0), flags(0), glyph, composite
    buf[glyph_at] = 2; // instruction length, only read when the component asks for instructions
    let comp_at = 39;
    put16(&mut buf, comp_at, if with_instr { 0x0102 } else { 0x0002 });
    let gid: u16 = kani::any();
    let a1: u8 = kani::any();
    let a2: u8 = kani::any();
    put16(&mut buf, comp_at + 2, gid);
    buf[comp_at + 4] = a1;
    buf[comp_at + 5] = a2;
    let bitmap_at = 45;
    buf[bitmap_at] = 0x80;
    let bb: [u8; 8] = kani::any();
    let mut k = 0;
    while k < 8 {
        buf[bitmap_at + 4 + k] = bb[k];
        k += 1;
    }
    let ins: [u8; 2] = kani::any();
    buf[57] = ins[0];
    buf[58] = ins[1];
    let loca = LocaTable::empty();
    let table = ReadScope::new(&buf).read_dep::<Woff2GlyfTable>((&ENTRY, &loca)).unwrap();
    assert!(table.records().len() == 1);
    match &table.records()[0] {
        GlyfRecord::Parsed(Glyph::Composite(c)) => {
            assert!(c.glyphs.len() == 1);
            assert!(c.glyphs[0].glyph_index == gid);
            if with_instr {
                assert!(c.instructions.len() == 2 && c.instructions[0] == ins[0] && c.instructions[1] == ins[1]);
            } else {
                assert!(c.instructions.is_empty());
            }
            assert!(c.bounding_box.x_min == be16(&bb, 0) as i16 && c.bounding_box.y_max == be16(&bb, 6) as i16);
            kani::cover!(with_instr, "hinted composite");
        }
        _ => assert!(false),
    }
    std::mem::forget(table);
}

/// Step 3a of the W3C reconstruction for a composite with TWO components: the instruction
/// length is read from the glyph stream as soon as ANY component carries WE_HAVE_INSTRUCTIONS
/// (not just the last one), and the glyph that follows is decoded from the right stream
/// positions.
// @bound 2 glyphs: a composite with two components (byte xy arguments; WE_HAVE_INSTRUCTIONS symbolic on each) with 2 instruction bytes, then an empty glyph; symbolic glyph indices, arguments and bbox
#[kani::proof]
#[kani::unwind(5)]
fn c11_composite_two_components() {
    let i0: bool = kani::any();
    let i1: bool = kani::any();
    // header 36 | nContour 4 | composite 12 | glyph stream 1 | bitmap 4 + bbox 8 | instructions 2
    let mut buf = [0u8; 36 + 4 + 12 + 1 + 12 + 2];
    put16(&mut buf, 4, 2);
    put32(&mut buf, 8, 4); // nContour stream
    put32(&mut buf, 20, 1); // glyph stream
    put32(&mut buf, 24, 12); // composite stream
    put32(&mut buf, 28, 12); // bbox stream
    put32(&mut buf, 32, 2); // instruction stream
    put16(&mut buf, 36, 0xFFFF); // glyph 0: numberOfContours = -1
    put16(&mut buf, 38, 0); // glyph 1: empty
    let glyph_at = 40;
    buf[glyph_at] = 2; // instruction length, only read when a component asks for instructions
    let comp_at = 41;
    put16(&mut buf, comp_at, 0x0022 | if i0 { 0x0100 } else { 0 }); // MORE_COMPONENTS | ARGS_ARE_XY_VALUES
    put16(&mut buf, comp_at + 6, 0x0002 | if i1 { 0x0100 } else { 0 });
    let (g0, g1): (u16, u16) = (kani::any(), kani::any());
    put16(&mut buf, comp_at + 2, g0);
    put16(&mut buf, comp_at + 8, g1);
    let args: [u8; 4] = kani::any();
    buf[comp_at + 4] = args[0];
    buf[comp_at + 5] = args[1];
    buf[comp_at + 10] = args[2];
    buf[comp_at + 11] = args[3];
    let bitmap_at = 53;
    buf[bitmap_at] = 0x80;
    // no copy loop: the unwinding bound also multiplies every loop of the decoder
    let bb: [u8; 8] = kani::any();
    buf[bitmap_at + 4] = bb[0];
    buf[bitmap_at + 5] = bb[1];
    buf[bitmap_at + 6] = bb[2];
    buf[bitmap_at + 7] = bb[3];
    buf[bitmap_at + 8] = bb[4];
    buf[bitmap_at + 9] = bb[5];
    buf[bitmap_at + 10] = bb[6];
    buf[bitmap_at + 11] = bb[7];
    let ins: [u8; 2] = kani::any();
    buf[65] = ins[0];
    buf[66] = ins[1];
    let loca = LocaTable::empty();
    let table = ReadScope::new(&buf).read_dep::<Woff2GlyfTable>((&ENTRY, &loca)).unwrap();
    assert!(table.records().len() == 2);
    match &table.records()[0] {
        GlyfRecord::Parsed(Glyph::Composite(c)) => {
            assert!(c.glyphs.len() == 2);
            assert!(c.glyphs[0].glyph_index == g0 && c.glyphs[1].glyph_index == g1);
            if i0 || i1 {
                assert!(c.instructions.len() == 2 && c.instructions[0] == ins[0] && c.instructions[1] == ins[1], "instructions of a hinted composite");
            } else {
                assert!(c.instructions.is_empty());
            }
            assert!(c.bounding_box.x_min == be16(&bb, 0) as i16 && c.bounding_box.y_max == be16(&bb, 6) as i16);
            kani::cover!(i0 && !i1, "instructions flagged on the first component only");
            kani::cover!(!i0 && !i1, "unhinted composite");
        }
        _ => assert!(false),
    }
    std::mem::forget(table);
}

// ---------------------------------------------------------------------------
// transformed hmtx
// ---------------------------------------------------------------------------

/// A parsed glyph record whose bounding box has the given xMin. A composite
/// record with an empty component list is used because it owns no heap memory
/// (a `SimpleGlyph` with two `Vec`s per glyph made the harness need 18 GB);
/// `Woff2HmtxTable` only looks at `Glyph::bounding_box()`.
fn simple_with_xmin(x_min: i16) -> GlyfRecord<'static> {
    GlyfRecord::Parsed(Glyph::Composite(allsorts::tables::glyf::CompositeGlyph {
        bounding_box: BoundingBox { x_min, x_max: x_min, y_min: 0, y_max: 0 },
        glyphs: Vec::new(),
        instructions: &[],
        phantom_points: None,
    }))
}

const HMTX_ENTRY: TableDirectoryEntry = TableDirectoryEntry {
    tag: 0x686D_7478,
    offset: 0,
    orig_length: 0,
    transform_length: Some(1),
};

/// Reference reconstruction (W3C section 5.4) for `ng` glyphs, `nh` hMetrics.
/// Returns the expected (advance, lsb) of glyph `g`, reading the transformed
/// stream `buf` (flags byte, advanceWidth[nh], then lsb[nh] if bit 0 clear,
/// then leftSideBearing[ng-nh] if bit 1 clear).
fn hmtx_reference(buf: &[u8], ng: usize, nh: usize, xmin: &[i16], g: usize) -> (u16, i16) {
    let flags = buf[0];
    let mut at = 1;
    let adv_at = at;
    at += 2 * nh;
    let lsb_at = at;
    if flags & 1 == 0 {
        at += 2 * nh;
    }
    let tail_at = at;
    let adv = if g < nh { be16(buf, adv_at + 2 * g) } else { be16(buf, adv_at + 2 * (nh - 1)) };
    let lsb = if g < nh {
        if flags & 1 == 0 {
            be16(buf, lsb_at + 2 * g) as i16
        } else {
            xmin[g]
        }
    } else if flags & 2 == 0 {
        be16(buf, tail_at + 2 * (g - nh)) as i16
    } else {
        xmin[g]
    };
    let _ = ng;
    (adv, lsb)
}

macro_rules! hmtx_harness {
    ($name:ident, $ng:expr, $nh:expr, $flags:expr) => {
        #[kani::proof]
        #[kani::unwind(8)]
        fn $name() {
            const NG: usize = $ng;
            const NH: usize = $nh;
            const FLAGS: u8 = $flags;
            // the transformed stream is exactly as long as the flags say
            const USED: usize = 1 + 2 * NH + if FLAGS & 1 == 0 { 2 * NH } else { 0 } + if FLAGS & 2 == 0 { 2 * (NG - NH) } else { 0 };
            let mut buf: [u8; USED] = kani::any();
            buf[0] = FLAGS;
            let mut xmin = [0i16; NG];
            let mut records = Vec::with_capacity(NG);
            let mut k = 0;
            while k < NG {
                xmin[k] = kani::any();
                records.push(simple_with_xmin(xmin[k]));
                k += 1;
            }
            let glyf = GlyfTable::new(records).unwrap();
            let hmtx = ReadScope::new(&buf)
                .read_dep::<Woff2HmtxTable>((&HMTX_ENTRY, &glyf, NG, NH))
                .unwrap();
            let g: usize = kani::any();
            kani::assume(g < NG);
            let (adv, lsb) = hmtx_reference(&buf, NG, NH, &xmin, g);
            let m = hmtx.metric(g as u16).unwrap();
            assert!(m.advance_width == adv);
            assert!(hmtx.horizontal_advance(g as u16).unwrap() == adv);
            if g < NH {
                assert!(m.lsb == lsb, "lsb of a glyph with its own hMetric");
            } else if FLAGS & 2 == 0 {
                assert!(m.lsb == lsb, "stored leftSideBearing of a trailing glyph");
            } else {
                assert!(m.lsb == lsb, "leftSideBearing of a trailing glyph reconstructed from its xMin");
            }
            kani::cover!(g == NG - 1, "last glyph");
            std::mem::forget(hmtx);
            std::mem::forget(glyf);
        }
    };
}

// @tier thorough
// @bound 2 glyphs, numberOfHMetrics = 1, transform flags 0 (both arrays stored); all stream bytes and glyph xMin values symbolic
hmtx_harness!(c11_hmtx_2g_1h_flags0, 2, 1, 0);
// @bound 2 glyphs, numberOfHMetrics = 1, flags 1 (lsb[] elided, leftSideBearing[] stored)
hmtx_harness!(c11_hmtx_2g_1h_flags1, 2, 1, 1);
// @tier thorough
// @bound 2 glyphs, numberOfHMetrics = 1, flags 2 (lsb[] stored, leftSideBearing[] elided)
hmtx_harness!(c11_hmtx_2g_1h_flags2, 2, 1, 2);
// @bound 2 glyphs, numberOfHMetrics = 1, flags 3 (both elided)
hmtx_harness!(c11_hmtx_2g_1h_flags3, 2, 1, 3);
// @bound 3 glyphs, numberOfHMetrics = 2, flags 1
hmtx_harness!(c11_hmtx_3g_2h_flags1, 3, 2, 1);
// @bound 3 glyphs, numberOfHMetrics = 2, flags 3
hmtx_harness!(c11_hmtx_3g_2h_flags3, 3, 2, 3);
// @bound 2 glyphs, numberOfHMetrics = 2 (no tail), flags 3
hmtx_harness!(c11_hmtx_2g_2h_flags3, 2, 2, 3);
// @tier thorough
// @bound 2 glyphs, numberOfHMetrics = 2 (no tail), flags 0
hmtx_harness!(c11_hmtx_2g_2h_flags0, 2, 2, 0);
