//! C05 - GPOS / kern semantics: value records, anchors and the legacy kern table.
//!
//! @funcs ValueFormat::read, ValueFormat::size, ValueRecord::read_dep, layout::read_variation_index_at_offset, Anchor::read, KernTable::read, KernTable::sub_tables, KernData::lookup (format 0 binary search, format 2 class table), kern::ClassTable::get, KernSubtable::{is_horizontal,is_minimum,is_cross_stream,is_override}
//! @out PairPos/MarkBase/MarkLig/Cursive subtable parsing and application (they take a LayoutCache: std HashMap), class matrices, device tables, pen-position resolution in GlyphLayout::glyph_positions (out of memory at 14 GB), kern tables with more than 3 pairs or 2x2 classes, whether kern format 2 left-class values include the array offset (Apple) or not (as implemented; see DESIGN.md section 7)

use crate::util::*;
use allsorts::binary::read::ReadScope;
use allsorts::error::ParseError;
use allsorts::layout::{Anchor, ValueFormat, ValueRecord};
use allsorts::tables::kern::{KernData, KernTable};

/// Value record decoding: each present field lands in its own member, absent ones are
/// 0 / None, and the record consumes exactly 2 bytes per set format bit - which is also
/// what ValueFormat::size reports (the stride of every value-record array).
// @bound every valueFormat 0..=0xFF; 16 symbolic record bytes; device offsets restricted to 0 (NULL) so that no device table is followed
#[kani::proof]
#[kani::unwind(10)]
fn c05_value_record_decoding() {
    let fbytes: [u8; 2] = kani::any();
    let f = be16(&fbytes, 0);
    let format = ReadScope::new(&fbytes).read::<ValueFormat>();
    if f > 0xFF {
        assert!(matches!(format, Err(ParseError::BadValue)));
        return;
    }
    let format = format.unwrap();
    let mut buf: [u8; 16] = kani::any();
    // positions of the fields that are present
    let mut at = 0usize;
    let mut pos = [usize::MAX; 8];
    let mut bit = 0;
    while bit < 8 {
        if f & (1 << bit) != 0 {
            pos[bit] = at;
            if bit >= 4 {
                // NULL device / variation index offset
                buf[at] = 0;
                buf[at + 1] = 0;
            }
            at += 2;
        }
        bit += 1;
    }
    let popcount = at / 2;
    assert!(format.size() == 2 * popcount);
    let table = [0u8; 4];
    let mut ctxt = ReadScope::new(&buf).ctxt();
    let rec: ValueRecord = ctxt.read_dep::<ValueRecord>((ReadScope::new(&table), format)).unwrap();
    assert!(ctxt.scope().data().len() == 16 - 2 * popcount);
    match rec {
        None => assert!(f == 0),
        Some(adj) => {
            assert!(f != 0);
            let field = |b: usize| if pos[b] == usize::MAX { 0 } else { be16(&buf, pos[b]) as i16 };
            assert!(adj.x_placement == field(0));
            assert!(adj.y_placement == field(1));
            assert!(adj.x_advance == field(2));
            assert!(adj.y_advance == field(3));
            assert!(adj.x_placement_variation.is_none() && adj.y_placement_variation.is_none());
            assert!(adj.x_advance_variation.is_none() && adj.y_advance_variation.is_none());
            kani::cover!(f == 0x0084, "xAdvance + yAdvDevice");
            kani::cover!(f == 0x00FF, "all fields");
        }
    }
}

/// A device offset that points at a VariationIndex table (deltaFormat 0x8000) yields
/// the outer/inner index pair; other delta formats are ignored.
// @bound valueFormat 0x0010 (xPlaDevice only); device table at a symbolic offset inside an 12-byte parent table with symbolic contents
#[kani::proof]
#[kani::unwind(10)]
fn c05_value_record_variation_index() {
    let fbytes = [0u8, 0x10];
    let format = ReadScope::new(&fbytes).read::<ValueFormat>().unwrap();
    let table: [u8; 12] = kani::any();
    let off: u16 = kani::any();
    let mut rec_bytes = [0u8; 2];
    put16(&mut rec_bytes, 0, off);
    let r = ReadScope::new(&rec_bytes).read_dep::<ValueRecord>((ReadScope::new(&table), format));
    if off == 0 {
        let adj = r.unwrap().unwrap();
        assert!(adj.x_placement_variation.is_none());
    } else if off as usize + 6 <= 12 {
        let adj = r.unwrap().unwrap();
        let o = off as usize;
        if be16(&table, o + 4) == 0x8000 {
            let v = adj.x_placement_variation.unwrap();
            assert!(v.outer_index == be16(&table, o) && v.inner_index == be16(&table, o + 2));
            kani::cover!(true, "variation index followed");
        } else {
            assert!(adj.x_placement_variation.is_none());
        }
        assert!(adj.x_placement == 0 && adj.x_advance == 0);
    } else {
        assert!(r.is_err());
        kani::cover!(true, "device offset outside the parent table");
    }
}

/// Anchor formats 1-3 give (x, y); every other format is rejected.
// @bound any 6 bytes
#[kani::proof]
#[kani::unwind(6)]
fn c05_anchor() {
    let buf: [u8; 6] = kani::any();
    let f = be16(&buf, 0);
    match ReadScope::new(&buf).read::<Anchor>() {
        Ok(a) => {
            assert!(f >= 1 && f <= 3);
            assert!(a.x == be16(&buf, 2) as i16 && a.y == be16(&buf, 4) as i16);
            kani::cover!(f == 3, "format 3");
        }
        Err(e) => assert!((f == 0 || f > 3) && e == ParseError::BadVersion),
    }
}

// ---------------------------------------------------------------------------
// kern
// ---------------------------------------------------------------------------

macro_rules! kern0_harness {
    ($name:ident, $npairs:expr) => {
        #[kani::proof]
        #[kani::unwind(8)]
        fn $name() {
            const NP: usize = $npairs;
            const TOTAL: usize = 4 + 6 + 8 + 6 * NP;
            let mut buf: [u8; TOTAL] = kani::any();
            put16(&mut buf, 0, 0); // version
            put16(&mut buf, 2, 1); // one subtable
            let coverage = be16(&buf, 8) & 0x00FF; // format 0
            put16(&mut buf, 8, coverage);
            put16(&mut buf, 10, NP as u16);
            // pairs sorted by (left << 16 | right), strictly increasing
            let key = |k: usize| ((be16(&buf, 18 + 6 * k) as u32) << 16) | be16(&buf, 20 + 6 * k) as u32;
            let mut k = 1;
            while k < NP {
                kani::assume(key(k - 1) < key(k));
                k += 1;
            }
            let kern = ReadScope::new(&buf).read::<KernTable<'_>>().unwrap();
            let mut it = kern.sub_tables();
            let sub = it.next().unwrap().unwrap();
            assert!(it.next().is_none());
            assert!(sub.is_horizontal() == (coverage & 1 != 0));
            assert!(sub.is_minimum() == (coverage & 2 != 0));
            assert!(sub.is_cross_stream() == (coverage & 4 != 0));
            assert!(sub.is_override() == (coverage & 8 != 0));
            let l: u16 = kani::any();
            let r: u16 = kani::any();
            let mut expect = None;
            let mut k = 0;
            while k < NP {
                if be16(&buf, 18 + 6 * k) == l && be16(&buf, 20 + 6 * k) == r {
                    expect = Some(be16(&buf, 22 + 6 * k) as i16);
                }
                k += 1;
            }
            assert!(sub.data().lookup(l, r) == expect);
            assert!(matches!(sub.data(), KernData::Format0(_)));
            kani::cover!(expect.is_some() && l != 0, "pair found");
            kani::cover!(expect.is_none(), "pair absent");
        }
    };
}

// @bound kern table with one format 0 subtable of 2 sorted pairs, all glyph ids and values symbolic; query pair any (u16, u16)
kern0_harness!(c05_kern_format0_2pairs, 2);
// @bound kern table with one format 0 subtable of 3 sorted pairs
kern0_harness!(c05_kern_format0_3pairs, 3);

/// kern format 2: classes are looked up per glyph (glyphs outside a class table have no
/// kerning) and the value is the FWORD at leftClassValue + rightClassValue within the
/// kerning array, as the crate documents it; an address outside the array is None.
// @bound kern table with one format 2 subtable: 2 left and 2 right glyphs, 2x2 kerning array, all class values, first glyphs and kerning values symbolic; query pair any (u16, u16)
// @release
#[kani::proof]
#[kani::unwind(8)]
fn c05_kern_format2() {
    const TOTAL: usize = 4 + 38;
    let mut buf: [u8; TOTAL] = kani::any();
    put16(&mut buf, 0, 0);
    put16(&mut buf, 2, 1);
    put16(&mut buf, 8, 0x0201); // format 2, horizontal
    put16(&mut buf, 10, 4); // rowWidth = 2 columns * 2 bytes
    put16(&mut buf, 12, 14); // leftClassTable
    put16(&mut buf, 14, 22); // rightClassTable
    put16(&mut buf, 16, 30); // array
    put16(&mut buf, 4 + 14 + 2, 2); // left nGlyphs
    put16(&mut buf, 4 + 22 + 2, 2); // right nGlyphs
    let lfirst = be16(&buf, 4 + 14);
    let rfirst = be16(&buf, 4 + 22);
    let kern = ReadScope::new(&buf).read::<KernTable<'_>>().unwrap();
    let sub = kern.sub_tables().next().unwrap().unwrap();
    assert!(matches!(sub.data(), KernData::Format2(_)));
    let l: u16 = kani::any();
    let r: u16 = kani::any();
    let got = sub.data().lookup(l, r);
    let lin = l >= lfirst && (l - lfirst) < 2;
    let rin = r >= rfirst && (r - rfirst) < 2;
    if !lin || !rin {
        assert!(got.is_none());
        kani::cover!(true, "glyph outside a class table");
    } else {
        let lc = be16(&buf, 4 + 14 + 4 + 2 * (l - lfirst) as usize) as usize;
        let rc = be16(&buf, 4 + 22 + 4 + 2 * (r - rfirst) as usize) as usize;
        let idx = lc + rc;
        if idx + 2 <= 8 {
            assert!(got == Some(be16(&buf, 4 + 30 + idx) as i16));
            kani::cover!(idx == 6, "last cell");
        } else {
            assert!(got.is_none());
            kani::cover!(true, "address outside the kerning array");
        }
    }
}
