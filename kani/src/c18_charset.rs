//! C18 - glyph <-> name-id lookups the charstring machinery relies on: the `seac` form of
//! `endchar` finds its base and accent glyphs through `Charset::sid_to_gid`, CID-keyed fonts pick
//! the Private DICT (and with it the local subroutines) of a glyph through
//! `FDSelect::font_dict_index`; the subsetter (C07) uses the same tables through `id_for_glyph`.
//!
//! @funcs cff::CustomCharset::{read_dep, id_for_glyph, sid_to_gid, iter, glyph_id_for_sid_in_ranges, id_for_glyph_in_ranges}, cff::Charset::{id_for_glyph, sid_to_gid}, cff::read_range_array, cff::FDSelect::{read_dep, font_dict_index}
//! @out charsets of more than 5 glyphs, FDSelect with more than 2 ranges, the predefined Expert charsets, the seac operator itself (interpreter loop, DESIGN.md section 4)

use crate::util::*;
use allsorts::binary::read::ReadScope;
use allsorts::cff::{Charset, CustomCharset, FDSelect};

const N_GLYPHS: usize = 5;

/// The name ids of glyphs 1.. as TN5176 section 13 defines them, for the three formats.
/// `None`: the buffer does not hold a complete charset.
fn expand(buf: &[u8]) -> Option<[u32; N_GLYPHS]> {
    let mut sids = [0u32; N_GLYPHS];
    match buf[0] {
        0 => {
            let mut g = 1;
            while g < N_GLYPHS {
                sids[g] = be16(buf, 1 + 2 * (g - 1)) as u32;
                g += 1;
            }
        }
        f @ (1 | 2) => {
            let rec = if f == 1 { 3 } else { 4 };
            let mut at = 1;
            let mut g = 1;
            while g < N_GLYPHS {
                if at + rec > buf.len() {
                    return None;
                }
                let first = be16(buf, at) as u32;
                let n_left = if f == 1 { buf[at + 2] as u32 } else { be16(buf, at + 2) as u32 };
                let mut k = 0;
                while k <= n_left && g < N_GLYPHS {
                    sids[g] = first + k;
                    g += 1;
                    k += 1;
                }
                at += rec;
            }
        }
        _ => return None,
    }
    Some(sids)
}

/// A symbolic charset of the given format with ranges inside the 16-bit id space, its expansion
/// and the parsed value.
fn charset_setup(format: u8, buf: &mut [u8; 17]) -> Option<[u32; N_GLYPHS]> {
    buf[0] = format;
    let sids = expand(&buf[..])?;
    // ranges stay inside the id space (the last range may extend past the glyph count)
    if format != 0 {
        let rec = if format == 1 { 3 } else { 4 };
        let mut at = 1;
        let mut covered = 0usize;
        while covered < N_GLYPHS - 1 {
            let first = be16(&buf[..], at) as u32;
            let n_left = if format == 1 { buf[at + 2] as u32 } else { be16(&buf[..], at + 2) as u32 };
            kani::assume(first + n_left <= 0xFFFF);
            covered += n_left as usize + 1;
            at += rec;
        }
    }
    Some(sids)
}

fn charset_glyph_to_id(format: u8) {
    let mut buf: [u8; 17] = kani::any();
    let sids = match charset_setup(format, &mut buf) {
        Some(s) => s,
        None => return,
    };
    let custom = ReadScope::new(&buf).read_dep::<CustomCharset<'_>>(N_GLYPHS).unwrap();
    let charset = Charset::Custom(custom);
    let g: u16 = kani::any();
    let got = charset.id_for_glyph(g);
    if (g as usize) < N_GLYPHS {
        assert!(got == Some(sids[g as usize] as u16), "id of a glyph");
        kani::cover!(g as usize == N_GLYPHS - 1, "last glyph");
    } else if format == 0 {
        assert!(got.is_none(), "glyph beyond a format 0 charset");
    }
}

fn charset_id_to_glyph(format: u8) {
    let mut buf: [u8; 17] = kani::any();
    let sids = match charset_setup(format, &mut buf) {
        Some(s) => s,
        None => return,
    };
    let custom = ReadScope::new(&buf).read_dep::<CustomCharset<'_>>(N_GLYPHS).unwrap();
    let charset = Charset::Custom(custom);
    let sid: u16 = kani::any();
    let found = charset.sid_to_gid(sid);
    if sid == 0 {
        assert!(found == Some(0));
        return;
    }
    let mut want = None;
    let mut k = N_GLYPHS - 1;
    while k >= 1 {
        if sids[k] == sid as u32 {
            want = Some(k as u16);
        }
        k -= 1;
    }
    match want {
        Some(k) => {
            assert!(found == Some(k), "glyph of an id");
            kani::cover!(k as usize == N_GLYPHS - 1, "last glyph");
            // the first range holds one glyph, so glyph 3 lies in a later range
            let first_n_left = if format == 1 { buf[3] as u16 } else { be16(&buf, 3) };
            kani::cover!(format == 0 || (k == 3 && first_n_left == 0), "glyph in a later range");
        }
        None => {
            // ranges may run past the glyph count: ids there name glyphs >= N_GLYPHS
            assert!(!matches!(found, Some(k) if (k as usize) < N_GLYPHS), "id not in the charset");
        }
    }
}

macro_rules! charset_harness {
    ($name:ident, $body:ident, $format:expr) => {
        #[kani::proof]
        #[kani::unwind(18)]
        fn $name() {
            $body($format);
        }
    };
}

// @bound custom charset format 0 for 5 glyphs, every SID symbolic; query glyph any u16
charset_harness!(c18_charset_format0_glyph_to_id, charset_glyph_to_id, 0);
// @bound custom charset format 0 for 5 glyphs, every SID symbolic; query id any u16 (the first glyph carrying it)
charset_harness!(c18_charset_format0_id_to_glyph, charset_id_to_glyph, 0);
// @bound custom charset format 1 for 5 glyphs (1 to 4 ranges), every first / nLeft symbolic with first + nLeft <= 65535; query glyph any u16
charset_harness!(c18_charset_format1_glyph_to_id, charset_glyph_to_id, 1);
// @bound custom charset format 1 for 5 glyphs (1 to 4 ranges), every first / nLeft symbolic with first + nLeft <= 65535; query id any u16
charset_harness!(c18_charset_format1_id_to_glyph, charset_id_to_glyph, 1);
// @tier thorough
// @bound custom charset format 2 for 5 glyphs (1 to 4 ranges), every first / nLeft symbolic with first + nLeft <= 65535; query glyph any u16
charset_harness!(c18_charset_format2_glyph_to_id, charset_glyph_to_id, 2);
// @bound custom charset format 2 for 5 glyphs (1 to 4 ranges), every first / nLeft symbolic with first + nLeft <= 65535; query id any u16
charset_harness!(c18_charset_format2_id_to_glyph, charset_id_to_glyph, 2);

/// No panic in the range walk for any range contents (id space overflow included).
// @bound custom charset formats 1 and 2 for 3 glyphs (1 or 2 ranges), every value symbolic; query glyph and id any u16
// @release
#[kani::proof]
#[kani::unwind(10)]
fn c18_charset_lookups_total() {
    let buf: [u8; 9] = kani::any();
    kani::assume(buf[0] == 1 || buf[0] == 2);
    if let Ok(custom) = ReadScope::new(&buf).read_dep::<CustomCharset<'_>>(3) {
        let _ = custom.id_for_glyph(kani::any());
        let _ = custom.sid_to_gid(kani::any());
        kani::cover!(true, "parsed");
    }
}

/// The predefined ISOAdobe charset maps glyph n to id n for the 229 standard names.
// @bound every u16 glyph id and id
#[kani::proof]
#[kani::unwind(4)]
fn c18_charset_iso_adobe() {
    let g: u16 = kani::any();
    let got = Charset::ISOAdobe.id_for_glyph(g);
    assert!(got == if g <= 228 { Some(g) } else { None });
    kani::cover!(g == 228, "last standard name");
}

/// FDSelect: format 0 is an array indexed by glyph; format 3 gives glyphs first[i] ..
/// first[i+1] - 1 (the sentinel closing the last range) the FD of range i.
// @bound FDSelect for 4 glyphs in a 12-byte buffer: format 0, or format 3 with 2 ranges, all values symbolic under the format's rule that firsts increase; query glyph any u16
#[kani::proof]
#[kani::unwind(14)]
fn c18_fdselect_lookup() {
    let mut buf: [u8; 12] = kani::any();
    kani::assume(buf[0] == 0 || buf[0] == 3);
    let g: u16 = kani::any();
    if buf[0] == 3 {
        put16(&mut buf, 1, 2);
        let (f0, f1, sentinel) = (be16(&buf, 3), be16(&buf, 6), be16(&buf, 9));
        kani::assume(f0 < f1 && f1 < sentinel);
        let fd = ReadScope::new(&buf).read_dep::<FDSelect<'_>>(4).unwrap();
        let want = if g >= f0 && g < f1 {
            Some(buf[5])
        } else if g >= f1 && g < sentinel {
            Some(buf[8])
        } else {
            None
        };
        assert!(fd.font_dict_index(g) == want, "format 3 range lookup");
        kani::cover!(g == f1, "first glyph of the second range");
        kani::cover!(g == sentinel - 1, "last glyph before the sentinel");
    } else {
        let fd = ReadScope::new(&buf).read_dep::<FDSelect<'_>>(4).unwrap();
        let want = if g < 4 { Some(buf[1 + g as usize]) } else { None };
        assert!(fd.font_dict_index(g) == want, "format 0 lookup");
        kani::cover!(g == 3, "last glyph");
    }
}
