//! C04 - GSUB lookup semantics: the matching primitives that do not go through the layout cache.
//!
//! Coverage / ClassDef lookup, the lookup-flag skipping rule with a GDEF table, and
//! backtrack / input / lookahead matching over a glyph run, each against the rule of
//! the OpenType specification restated in the harness. Lookup application itself
//! (`gsub_apply_lookup`, ordering across features, nested lookups, ligature
//! application) sits behind `LayoutCache` (std HashMap) and `Vec<RawGlyph>` surgery and
//! is out of reach (DESIGN.md section 4).
//!
//! @funcs Coverage::read, Coverage::glyph_coverage_value, ClassDef::read, ClassDef::glyph_class_value, MarkGlyphSets::read, MarkGlyphSets::get, LookupFlag::{get_ignore_bases, get_ignore_ligatures, get_ignore_marks, use_mark_filtering_set}, MatchType::{from_lookup_flag, match_glyph, find_prev, find_next, find_nth, find_first, match_back, match_front}, MatchContext::matches, context::check_glyph_table, gdef::{glyph_class, mark_attach_class, glyph_is_mark_in_set}, Ligature::matches
//! @out lookup ordering across features, per-type application loops, nested lookups at sequence positions, extension lookups, reverse chaining, feature variations, Ligature::apply (Vec<RawGlyph> remove/append: out of memory at 12 GB), runs longer than 5 glyphs, contexts longer than 2+2+2

use crate::util::*;
use allsorts::binary::read::ReadScope;
use allsorts::context::{Glyph, GlyphTable, LookupFlag, MatchContext, MatchType};
use allsorts::layout::{ClassDef, Coverage, GDEFTable, MarkGlyphSets};
use std::rc::Rc;

#[derive(Copy, Clone)]
struct G(u16);

impl Glyph for G {
    fn get_glyph_index(&self) -> u16 {
        self.0
    }
}

// ---------------------------------------------------------------------------
// Coverage and ClassDef
// ---------------------------------------------------------------------------

/// Coverage format 1: the coverage index of a glyph is its position in the sorted glyph array.
// @bound format 1 coverage table with 3 strictly increasing symbolic glyph ids; query glyph any u16
#[kani::proof]
#[kani::unwind(6)]
fn c04_coverage_format1() {
    let mut buf: [u8; 10] = kani::any();
    put16(&mut buf, 0, 1);
    put16(&mut buf, 2, 3);
    let g0 = be16(&buf, 4);
    let g1 = be16(&buf, 6);
    let g2 = be16(&buf, 8);
    kani::assume(g0 < g1 && g1 < g2);
    let cov = ReadScope::new(&buf).read::<Coverage>().unwrap();
    let q: u16 = kani::any();
    let expect = if q == g0 {
        Some(0)
    } else if q == g1 {
        Some(1)
    } else if q == g2 {
        Some(2)
    } else {
        None
    };
    assert!(cov.glyph_coverage_value(q) == expect);
    assert!(cov.glyph_count() == 3);
    kani::cover!(expect == Some(2), "last glyph");
    std::mem::forget(cov);
}

/// Coverage format 2: ranges; index = startCoverageIndex + (glyph - start).
// @bound format 2 coverage table with 2 sorted disjoint symbolic ranges with consistent coverage indices; query glyph any u16
#[kani::proof]
#[kani::unwind(6)]
fn c04_coverage_format2() {
    let mut buf: [u8; 16] = kani::any();
    put16(&mut buf, 0, 2);
    put16(&mut buf, 2, 2);
    let (s0, e0, c0) = (be16(&buf, 4), be16(&buf, 6), be16(&buf, 8));
    let (s1, e1, c1) = (be16(&buf, 10), be16(&buf, 12), be16(&buf, 14));
    kani::assume(s0 <= e0 && e0 < s1 && s1 <= e1);
    // coverage indices as the format defines them: consecutive over the ranges
    kani::assume(c0 == 0 && c1 as u32 == (e0 - s0) as u32 + 1);
    kani::assume((c1 as u32) + ((e1 - s1) as u32) <= 0xFFFF);
    let cov = ReadScope::new(&buf).read::<Coverage>().unwrap();
    let q: u16 = kani::any();
    let expect = if q >= s0 && q <= e0 {
        Some(c0 + (q - s0))
    } else if q >= s1 && q <= e1 {
        Some(c1 + (q - s1))
    } else {
        None
    };
    assert!(cov.glyph_coverage_value(q) == expect);
    // the number of glyphs covered is the sum of the range widths
    assert!(cov.glyph_count() == (e0 - s0) as usize + 1 + (e1 - s1) as usize + 1);
    kani::cover!(matches!(expect, Some(v) if v > 300), "deep index");
    std::mem::forget(cov);
}

/// ClassDef format 1: class array from startGlyph; everything else is class 0.
// @bound format 1 class definition with 3 symbolic class values and symbolic startGlyph; query glyph any u16
#[kani::proof]
#[kani::unwind(6)]
fn c04_classdef_format1() {
    let mut buf: [u8; 12] = kani::any();
    put16(&mut buf, 0, 1);
    put16(&mut buf, 4, 3);
    let start = be16(&buf, 2);
    let cd = ReadScope::new(&buf).read::<ClassDef>().unwrap();
    let q: u16 = kani::any();
    let expect = if q >= start && (q - start) < 3 {
        be16(&buf, 6 + 2 * (q - start) as usize)
    } else {
        0
    };
    assert!(cd.glyph_class_value(q) == expect);
    kani::cover!(q == start.wrapping_add(2) && start < 65000, "last entry");
    std::mem::forget(cd);
}

/// ClassDef format 2: ranges; uncovered glyphs are class 0.
// @bound format 2 class definition with 2 sorted disjoint symbolic ranges; query glyph any u16
#[kani::proof]
#[kani::unwind(6)]
fn c04_classdef_format2() {
    let mut buf: [u8; 16] = kani::any();
    put16(&mut buf, 0, 2);
    put16(&mut buf, 2, 2);
    let (s0, e0, c0) = (be16(&buf, 4), be16(&buf, 6), be16(&buf, 8));
    let (s1, e1, c1) = (be16(&buf, 10), be16(&buf, 12), be16(&buf, 14));
    kani::assume(s0 <= e0 && e0 < s1 && s1 <= e1);
    let cd = ReadScope::new(&buf).read::<ClassDef>().unwrap();
    let q: u16 = kani::any();
    let expect = if q >= s0 && q <= e0 {
        c0
    } else if q >= s1 && q <= e1 {
        c1
    } else {
        0
    };
    assert!(cd.glyph_class_value(q) == expect);
    kani::cover!(q > e0 && q < s1, "gap between ranges");
    std::mem::forget(cd);
}

// ---------------------------------------------------------------------------
// lookup flag rule
// ---------------------------------------------------------------------------

/// A GDEF table over glyph ids 0..=3: glyph classes and mark attachment classes are
/// symbolic (format 1 class definitions starting at glyph 0), one mark filtering set
/// (coverage format 1 with two symbolic glyphs).
struct Gdef {
    table: GDEFTable,
    class: [u16; 4],
    attach: [u16; 4],
    set: [u16; 2],
}

fn symbolic_gdef() -> Gdef {
    let mut cbuf = [0u8; 14];
    put16(&mut cbuf, 0, 1);
    put16(&mut cbuf, 2, 0);
    put16(&mut cbuf, 4, 4);
    let mut abuf = cbuf;
    let mut class = [0u16; 4];
    let mut attach = [0u16; 4];
    let mut k = 0;
    while k < 4 {
        class[k] = kani::any();
        attach[k] = kani::any();
        kani::assume(class[k] <= 3 && attach[k] <= 3);
        put16(&mut cbuf, 6 + 2 * k, class[k]);
        put16(&mut abuf, 6 + 2 * k, attach[k]);
        k += 1;
    }
    let mut sbuf = [0u8; 16];
    put16(&mut sbuf, 0, 1); // format
    put16(&mut sbuf, 2, 1); // one set
    put32(&mut sbuf, 4, 8); // offset of the coverage table
    put16(&mut sbuf, 8, 1); // coverage format 1
    put16(&mut sbuf, 10, 2);
    let a: u16 = kani::any();
    let b: u16 = kani::any();
    kani::assume(a < b && b <= 3);
    put16(&mut sbuf, 12, a);
    put16(&mut sbuf, 14, b);
    let table = GDEFTable {
        opt_glyph_classdef: Some(ReadScope::new(&cbuf).read::<ClassDef>().unwrap()),
        opt_mark_attach_classdef: Some(ReadScope::new(&abuf).read::<ClassDef>().unwrap()),
        opt_mark_glyph_sets: Some(ReadScope::new(&sbuf).read::<MarkGlyphSets>().unwrap()),
        opt_item_variation_store: None,
    };
    Gdef { table, class, attach, set: [a, b] }
}

/// GDEF with only a glyph class definition (enough for lookup flag bits 1-3); much cheaper
/// than `symbolic_gdef` because no `MarkGlyphSets` (Vec<Coverage>) is built.
fn light_gdef() -> Gdef {
    let mut cbuf = [0u8; 14];
    put16(&mut cbuf, 0, 1);
    put16(&mut cbuf, 2, 0);
    put16(&mut cbuf, 4, 4);
    let mut class = [0u16; 4];
    let mut k = 0;
    while k < 4 {
        class[k] = kani::any();
        kani::assume(class[k] <= 3);
        put16(&mut cbuf, 6 + 2 * k, class[k]);
        k += 1;
    }
    let table = GDEFTable {
        opt_glyph_classdef: Some(ReadScope::new(&cbuf).read::<ClassDef>().unwrap()),
        opt_mark_attach_classdef: None,
        opt_mark_glyph_sets: None,
        opt_item_variation_store: None,
    };
    Gdef { table, class, attach: [0; 4], set: [0, 0] }
}

/// OpenType lookup flag rule (chapter 2, "Lookup table", lookupFlag bit enumeration):
/// a glyph is skipped iff it is a base and IGNORE_BASE_GLYPHS is set, a ligature and
/// IGNORE_LIGATURES is set, or a mark and (IGNORE_MARKS is set, or a mark attachment
/// type is given and differs from the mark's, or a mark filtering set is in use and
/// does not contain the mark). Glyphs of any other class are never skipped.
fn skipped(gd: &Gdef, flag: u16, filtering_set: Option<u16>, g: u16) -> bool {
    let (class, attach) = if g <= 3 { (gd.class[g as usize], gd.attach[g as usize]) } else { (0, 0) };
    if class == 1 {
        return flag & 0x0002 != 0;
    }
    if class == 2 {
        return flag & 0x0004 != 0;
    }
    if class == 3 {
        if flag & 0x0008 != 0 {
            return true;
        }
        if flag & 0xFF00 != 0 {
            return attach != flag >> 8;
        }
        if flag & 0x0010 != 0 && filtering_set == Some(0) {
            return !(g == gd.set[0] || g == gd.set[1]);
        }
        return false;
    }
    false
}

/// match_glyph implements the lookup-flag rule for every flag word and glyph.
// @bound GDEF over glyphs 0..=3 with symbolic glyph classes (0..=3), mark attachment classes (0..=3) and a 2-glyph mark filtering set; lookup flag any u16 (mark attachment type and mark filtering set not both in use: the spec does not rank them); glyph any u16
#[kani::proof]
#[kani::unwind(8)]
fn c04_lookup_flag_rule() {
    let gd = symbolic_gdef();
    let flag: u16 = kani::any();
    let use_set: bool = kani::any();
    let filtering_set = if use_set { Some(0u16) } else { None };
    // a set index is read exactly when the flag bit is set
    kani::assume(use_set == (flag & 0x0010 != 0));
    kani::assume(!(flag & 0xFF00 != 0 && flag & 0x0010 != 0));
    let g: u16 = kani::any();
    let mt = MatchType::from_lookup_flag(LookupFlag(flag), filtering_set);
    let matched = mt.match_glyph(Some(&gd.table), &G(g));
    let skip = skipped(&gd, flag, filtering_set, g);
    let class = if g <= 3 { gd.class[g as usize] } else { 0 };
    if class == 3 {
        assert!(matched == !skip, "mark glyph: skipping follows IGNORE_MARKS / attachment type / filtering set");
    } else if flag & 0x0010 != 0 && flag & 0x0008 == 0 {
        assert!(matched == !skip, "non-mark glyph under a mark filtering set");
    } else {
        assert!(matched == !skip, "non-mark glyph: only IGNORE_BASE_GLYPHS / IGNORE_LIGATURES apply");
    }
    kani::cover!(class == 3 && flag & 0xFF00 != 0 && matched, "mark kept by attachment type");
    kani::cover!(class == 3 && use_set && !matched, "mark dropped by filtering set");
    std::mem::forget(gd);
}

// ---------------------------------------------------------------------------
// context matching over a run of 5 glyphs
// ---------------------------------------------------------------------------

const RUN: usize = 5;

/// Reference matcher: walk the non-skipped glyphs backwards from `i` for the backtrack
/// sequence (in reverse order: backtrack[0] is the glyph nearest to i), forwards for
/// the input sequence (which starts AFTER glyph i: the first input glyph was already
/// matched through the coverage table) and on for the lookahead sequence.
fn reference_matches(
    gd: &Gdef,
    flag: u16,
    run: &[u16; RUN],
    i: usize,
    back: &[u16],
    input: &[u16],
    ahead: &[u16],
    eq: &dyn Fn(u16, u16) -> bool,
) -> bool {
    let mut pos = i;
    let mut k = 0;
    while k < back.len() {
        loop {
            if pos == 0 {
                return false;
            }
            pos -= 1;
            if !skipped(gd, flag, None, run[pos]) {
                break;
            }
        }
        if !eq(back[k], run[pos]) {
            return false;
        }
        k += 1;
    }
    let mut pos = i;
    let mut k = 0;
    while k < input.len() + ahead.len() {
        loop {
            pos += 1;
            if pos >= RUN {
                return false;
            }
            if !skipped(gd, flag, None, run[pos]) {
                break;
            }
        }
        let want = if k < input.len() { input[k] } else { ahead[k - input.len()] };
        if !eq(want, run[pos]) {
            return false;
        }
        k += 1;
    }
    true
}

macro_rules! context_by_id {
    ($name:ident, $nb:expr, $ni:expr, $na:expr) => {
        #[kani::proof]
        #[kani::unwind(8)]
        fn $name() {
            let gd = light_gdef();
            let flag: u16 = kani::any();
            kani::assume(flag & !0x000E == 0); // ignore bases / ligatures / marks, any combination
            let mut run = [0u16; RUN];
            let mut glyphs = [G(0); RUN];
            let mut k = 0;
            while k < RUN {
                run[k] = kani::any();
                kani::assume(run[k] <= 3);
                glyphs[k] = G(run[k]);
                k += 1;
            }
            let back: [u16; $nb] = kani::any();
            let input: [u16; $ni] = kani::any();
            let ahead: [u16; $na] = kani::any();
            let i: usize = kani::any();
            kani::assume(i < RUN);
            let ctx = MatchContext {
                backtrack_table: GlyphTable::ById(&back),
                input_table: GlyphTable::ById(&input),
                lookahead_table: GlyphTable::ById(&ahead),
            };
            let mt = MatchType::from_lookup_flag(LookupFlag(flag), None);
            let got = ctx.matches(Some(&gd.table), mt, &glyphs, i);
            let expect = reference_matches(&gd, flag, &run, i, &back, &input, &ahead, &|a, b| a == b);
            assert!(got == expect);
            kani::cover!(got && flag != 0, "matched with a skipping flag");
            kani::cover!(!got, "rejected");
            std::mem::forget(gd);
        }
    };
}

// @bound run of 5 glyphs (ids 0..=3, classes symbolic), backtrack 1 / input 1 / lookahead 1 symbolic glyph ids, any position, lookup flag bits 1-3 symbolic
context_by_id!(c04_context_by_id_1_1_1, 1, 1, 1);
// @bound run of 5 glyphs, backtrack 2 / input 0 / lookahead 1
context_by_id!(c04_context_by_id_2_0_1, 2, 0, 1);
// @bound run of 5 glyphs, backtrack 0 / input 2 / lookahead 2
context_by_id!(c04_context_by_id_0_2_2, 0, 2, 2);

/// Class-based contexts (format 2): sequences are class values looked up in a ClassDef.
// @bound run of 5 glyphs (ids 0..=3), ClassDef format 1 over glyphs 1..=3 with symbolic classes, backtrack 1 / input 1 / lookahead 1 class values, flag bits 1-3
#[kani::proof]
#[kani::unwind(8)]
fn c04_context_by_class() {
    let gd = light_gdef();
    let flag: u16 = kani::any();
    kani::assume(flag & !0x000E == 0);
    let mut cbuf = [0u8; 12];
    put16(&mut cbuf, 0, 1);
    put16(&mut cbuf, 2, 1);
    put16(&mut cbuf, 4, 3);
    let mut cls = [0u16; 3];
    let mut k = 0;
    while k < 3 {
        cls[k] = kani::any();
        kani::assume(cls[k] <= 2);
        put16(&mut cbuf, 6 + 2 * k, cls[k]);
        k += 1;
    }
    let classdef = Rc::new(ReadScope::new(&cbuf).read::<ClassDef>().unwrap());
    let mut run = [0u16; RUN];
    let mut glyphs = [G(0); RUN];
    let mut k = 0;
    while k < RUN {
        run[k] = kani::any();
        kani::assume(run[k] <= 3);
        glyphs[k] = G(run[k]);
        k += 1;
    }
    let back: [u16; 1] = kani::any();
    let input: [u16; 1] = kani::any();
    let ahead: [u16; 1] = kani::any();
    let i: usize = kani::any();
    kani::assume(i < RUN);
    let ctx = MatchContext {
        backtrack_table: GlyphTable::ByClassDef(classdef.clone(), &back),
        input_table: GlyphTable::ByClassDef(classdef.clone(), &input),
        lookahead_table: GlyphTable::ByClassDef(classdef.clone(), &ahead),
    };
    let mt = MatchType::from_lookup_flag(LookupFlag(flag), None);
    let got = ctx.matches(Some(&gd.table), mt, &glyphs, i);
    let class_of = |g: u16| if g >= 1 && g <= 3 { cls[(g - 1) as usize] } else { 0 };
    let expect = reference_matches(&gd, flag, &run, i, &back, &input, &ahead, &|want, g| class_of(g) == want);
    assert!(got == expect);
    kani::cover!(got, "matched");
    std::mem::forget(gd);
    std::mem::forget(ctx);
    std::mem::forget(classdef);
}

/// Coverage-based contexts (format 3): one coverage table per position.
// @bound run of 5 glyphs (ids 0..=3), three format 1 coverage tables of one symbolic glyph each, backtrack 1 / input 1 / lookahead 1, flag bits 1-3
#[kani::proof]
#[kani::unwind(8)]
fn c04_context_by_coverage() {
    let gd = light_gdef();
    let flag: u16 = kani::any();
    kani::assume(flag & !0x000E == 0);
    let want: [u16; 3] = kani::any();
    let mk = |g: u16| {
        let mut b = [0u8; 6];
        put16(&mut b, 0, 1);
        put16(&mut b, 2, 1);
        put16(&mut b, 4, g);
        Rc::new(ReadScope::new(&b).read::<Coverage>().unwrap())
    };
    let cb = [mk(want[0])];
    let ci = [mk(want[1])];
    let ca = [mk(want[2])];
    let mut run = [0u16; RUN];
    let mut glyphs = [G(0); RUN];
    let mut k = 0;
    while k < RUN {
        run[k] = kani::any();
        kani::assume(run[k] <= 3);
        glyphs[k] = G(run[k]);
        k += 1;
    }
    let i: usize = kani::any();
    kani::assume(i < RUN);
    let ctx = MatchContext {
        backtrack_table: GlyphTable::ByCoverage(&cb),
        input_table: GlyphTable::ByCoverage(&ci),
        lookahead_table: GlyphTable::ByCoverage(&ca),
    };
    let mt = MatchType::from_lookup_flag(LookupFlag(flag), None);
    let got = ctx.matches(Some(&gd.table), mt, &glyphs, i);
    let expect = reference_matches(&gd, flag, &run, i, &want[0..1], &want[1..2], &want[2..3], &|w, g| w == g);
    assert!(got == expect);
    kani::cover!(got, "matched");
    std::mem::forget(gd);
    std::mem::forget(ctx);
    std::mem::forget(cb);
    std::mem::forget(ci);
    std::mem::forget(ca);
}

/// find_prev / find_next / find_nth / find_first return the nearest non-skipped glyph
/// in the given direction and never an index outside the run (shared with C02).
// @bound run of 5 glyphs (ids 0..=3, classes symbolic), any start index 0..=5, count 0..=3, flag bits 1-3
#[kani::proof]
#[kani::unwind(8)]
fn c04_find_primitives() {
    let gd = light_gdef();
    let flag: u16 = kani::any();
    kani::assume(flag & !0x000E == 0);
    let mut run = [0u16; RUN];
    let mut glyphs = [G(0); RUN];
    let mut k = 0;
    while k < RUN {
        run[k] = kani::any();
        kani::assume(run[k] <= 3);
        glyphs[k] = G(run[k]);
        k += 1;
    }
    let mt = MatchType::from_lookup_flag(LookupFlag(flag), None);
    let i: usize = kani::any();
    kani::assume(i <= RUN);
    // find_prev: largest j < i that is not skipped
    let mut expect_prev = None;
    let mut j = 0;
    while j < RUN {
        if j < i && !skipped(&gd, flag, None, run[j]) {
            expect_prev = Some(j);
        }
        j += 1;
    }
    assert!(mt.find_prev(Some(&gd.table), &glyphs, i) == expect_prev);
    // find_next: smallest j > i that is not skipped
    let mut expect_next = None;
    let mut j = RUN;
    while j > 0 {
        j -= 1;
        if j > i && !skipped(&gd, flag, None, run[j]) {
            expect_next = Some(j);
        }
    }
    assert!(mt.find_next(Some(&gd.table), &glyphs, i) == expect_next);
    // find_first
    let mut expect_first = None;
    let mut j = RUN;
    while j > 0 {
        j -= 1;
        if !skipped(&gd, flag, None, run[j]) {
            expect_first = Some(j);
        }
    }
    assert!(mt.find_first(Some(&gd.table), &glyphs) == expect_first);
    // find_nth(i, n): n-th non-skipped glyph after i (n == 0: i itself)
    let n: usize = kani::any();
    kani::assume(n <= 3);
    let mut pos = Some(i);
    let mut c = 0;
    while c < 3 {
        if c < n {
            pos = match pos {
                Some(p) => {
                    let mut nx = None;
                    let mut j = RUN;
                    while j > 0 {
                        j -= 1;
                        if j > p && !skipped(&gd, flag, None, run[j]) {
                            nx = Some(j);
                        }
                    }
                    nx
                }
                None => None,
            };
        }
        c += 1;
    }
    assert!(mt.find_nth(Some(&gd.table), &glyphs, i, n) == pos);
    kani::cover!(expect_next.is_some() && expect_next != Some(i + 1), "a glyph was skipped going forward");
    std::mem::forget(gd);
}

/// Ligature::matches: the component list equals the next non-skipped glyphs after i.
// @bound run of 4 RawGlyphs (ids 0..=3, classes symbolic), ligature with 2 symbolic component glyphs, any position, flag bits 1-3
#[kani::proof]
#[kani::unwind(8)]
fn c04_ligature_matches() {
    use allsorts::gsub::{GlyphOrigin, RawGlyph, RawGlyphFlags};
    use allsorts::layout::Ligature;
    let gd = light_gdef();
    let flag: u16 = kani::any();
    kani::assume(flag & !0x000E == 0);
    let mut run = [0u16; 4];
    let mut k = 0;
    while k < 4 {
        run[k] = kani::any();
        kani::assume(run[k] <= 3);
        k += 1;
    }
    let mk = |g: u16| RawGlyph {
        unicodes: tinyvec::tiny_vec![],
        glyph_index: g,
        liga_component_pos: 0,
        glyph_origin: GlyphOrigin::Direct,
        flags: RawGlyphFlags::empty(),
        variation: None,
        extra_data: (),
    };
    let glyphs = [mk(run[0]), mk(run[1]), mk(run[2]), mk(run[3])];
    let c0: u16 = kani::any();
    let c1: u16 = kani::any();
    let lig = Ligature { ligature_glyph: 9, component_glyphs: vec![c0, c1] };
    let i: usize = kani::any();
    kani::assume(i < 4);
    let mt = MatchType::from_lookup_flag(LookupFlag(flag), None);
    let got = lig.matches(mt, Some(&gd.table), i, &glyphs);
    // reference: next two non-skipped glyphs after i are c0, c1
    let mut want = [c0, c1];
    let mut n = 0;
    let mut ok = true;
    let mut j = 0;
    while j < 4 {
        if j > i && n < 2 && !skipped(&gd, flag, None, run[j]) {
            if run[j] != want[n] {
                ok = false;
            }
            n += 1;
        }
        j += 1;
    }
    want[0] = 0;
    assert!(got == (ok && n == 2));
    kani::cover!(got && flag != 0, "matched across a skipped glyph or with a skipping flag");
    std::mem::forget(gd);
    std::mem::forget(lig);
    std::mem::forget(glyphs);
}

// ---------------------------------------------------------------------------
// FeatureVariations: condition sets against a variation tuple
// ---------------------------------------------------------------------------

use allsorts::layout::{FeatureTableSubstitution, FeatureVariationsOwned};
use allsorts::tables::variable_fonts::fvar::FvarTable;
use allsorts::tables::F2Dot14;

fn two_axis_fvar() -> [u8; 56] {
    let mut buf = [0u8; 56];
    put16(&mut buf, 0, 1);
    put16(&mut buf, 4, 16);
    put16(&mut buf, 6, 2);
    put16(&mut buf, 8, 2);
    put16(&mut buf, 10, 20);
    let mut k = 0;
    while k < 2 {
        let at = 16 + 20 * k;
        put32(&mut buf, at, 0x7767_6874);
        put32(&mut buf, at + 4, 100u32 << 16);
        put32(&mut buf, at + 8, 400u32 << 16);
        put32(&mut buf, at + 12, 900u32 << 16);
        put16(&mut buf, at + 18, 256 + k as u16);
        k += 1;
    }
    buf
}

/// The first feature variation record whose condition set matches wins; a condition set is the
/// conjunction of its conditions; an axis-range condition holds iff min <= value <= max (both
/// ends inclusive) for an axis the tuple has; unknown condition formats never match; a record
/// without a condition set matches everything.
// @bound FeatureVariations with 2 records: record 0 with a set of 2 conditions (format 1 or unknown, axis index 0..2, every 2.14 min/max), record 1 universal; tuple of 2 axes with every 2.14 value
#[kani::proof]
#[kani::unwind(6)]
fn c04_feature_variation_conditions() {
    let mut buf: [u8; 56] = kani::any();
    put16(&mut buf, 0, 1);
    put16(&mut buf, 2, 0);
    put32(&mut buf, 4, 2);
    put32(&mut buf, 8, 24);
    put32(&mut buf, 12, 0); // record 0: no substitution table
    put32(&mut buf, 16, 0); // record 1: universal
    put32(&mut buf, 20, 50);
    put16(&mut buf, 24, 2);
    put32(&mut buf, 26, 10);
    put32(&mut buf, 30, 18);
    put16(&mut buf, 50, 1);
    put16(&mut buf, 52, 0);
    put16(&mut buf, 54, 0);
    let v: [i16; 2] = [kani::any(), kani::any()];
    let mut all = true;
    let mut k = 0;
    while k < 2 {
        let at = 34 + 8 * k;
        let format = be16(&buf, at);
        kani::assume(format == 1 || format == 2);
        let axis = be16(&buf, at + 2);
        kani::assume(axis <= 2);
        let min = be16(&buf, at + 4) as i16;
        let max = be16(&buf, at + 6) as i16;
        let holds = format == 1 && axis < 2 && min <= v[axis as usize % 2] && v[axis as usize % 2] <= max;
        all = all && holds;
        k += 1;
    }
    let fv = ReadScope::new(&buf).read::<FeatureVariationsOwned>().unwrap();
    let fbuf = two_axis_fvar();
    let fvar = ReadScope::new(&fbuf).read::<FvarTable<'_>>().unwrap();
    let tuple = fvar.owned_tuple(&[F2Dot14::from_raw(v[0]), F2Dot14::from_raw(v[1])]).unwrap();
    let got = fv.matches(tuple.as_tuple()).unwrap();
    match got {
        Some(FeatureTableSubstitution::NoSubstitution) => assert!(all, "record 0 chosen although a condition fails"),
        Some(FeatureTableSubstitution::Table(_)) => assert!(!all, "record 0 skipped although every condition holds"),
        None => assert!(false, "the universal record always matches"),
    }
    kani::cover!(all && v[0] == be16(&buf, 40) as i16 && be16(&buf, 36) == 0, "value on the upper end of a range");
    kani::cover!(!all);
    std::mem::forget(fv);
    std::mem::forget(tuple);
}
