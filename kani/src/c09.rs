//! C09 - every font the library writes is a valid sfnt: the kernels that are within reach.
//!
//! `FontBuilder` keeps its tables in a BTreeMap and is out of reach for CBMC (25 min, no
//! answer); what is decided here is the arithmetic it is built from: the table checksum,
//! the loca writer (incl. refusal instead of truncation), and the head checkSumAdjustment
//! placeholder. Alignment and the search-field exponent are Engine B kernels
//! (lib/smt_engine.py build_c09).
//!
//! @funcs checksum::table_checksum, loca::owned::LocaTable::write_dep, LocaTable::read_dep, LocaOffsets::{get,len,last,iter}, HeadTable::write, WriteBuffer::write_placeholder, binary::long_align, binary::word_align, subset::max_power_of_2
//! @out FontBuilder (directory order, offsets, padding, head adjustment over the whole file), the glyf writer (2 records: no answer in 15 min), CFF offsets, consistency of maxp/hhea/hmtx/cmap/post in subsets and instances, WOFF2-reconstructed tables

use crate::util::*;
use allsorts::binary::read::ReadScope;
use allsorts::binary::write::{WriteBinary, WriteBinaryDep, WriteBuffer, WriteContext};
use allsorts::checksum::table_checksum;
use allsorts::error::WriteError;
use allsorts::tables::loca::{self, LocaTable};
use allsorts::tables::{HeadTable, IndexToLocFormat};

macro_rules! checksum_harness {
    ($name:ident, $words:expr) => {
        #[kani::proof]
        #[kani::unwind(6)]
        fn $name() {
            const W: usize = $words;
            let buf: [u8; 4 * W] = kani::any();
            let mut expect: u32 = 0;
            let mut i = 0;
            while i < W {
                expect = expect.wrapping_add(be32(&buf, 4 * i));
                i += 1;
            }
            let got = table_checksum(&buf).unwrap();
            assert!(got.0 == expect);
            kani::cover!(W == 1 || expect < be32(&buf, 0), "sum wrapped (or single word)");
        }
    };
}

// @bound 1 word (4 symbolic bytes)
checksum_harness!(c09_checksum_1_word, 1);
// @bound 3 words (12 symbolic bytes): the sum of big-endian u32 words modulo 2^32
checksum_harness!(c09_checksum_3_words, 3);
// @bound 4 words (16 symbolic bytes)
checksum_harness!(c09_checksum_4_words, 4);

/// The checksum of the empty table is 0.
// @bound the empty slice
#[kani::proof]
#[kani::unwind(4)]
fn c09_checksum_empty() {
    let got = table_checksum(&[]).unwrap();
    assert!(got.0 == 0);
    kani::cover!(true, "empty");
}

/// loca, short format: the stored value is offset/2; an odd offset or one that does
/// not fit 16 bits after halving is refused - never written truncated.
// @bound 3 offsets, each any u32
#[kani::proof]
#[kani::unwind(6)]
fn c09_loca_short_write_read() {
    let a: u32 = kani::any();
    let b: u32 = kani::any();
    let c: u32 = kani::any();
    let table = loca::owned::LocaTable { offsets: vec![a, b, c] };
    let mut out = WriteBuffer::new();
    let r = loca::owned::LocaTable::write_dep(&mut out, table, IndexToLocFormat::Short);
    let fits = |v: u32| v % 2 == 0 && v / 2 <= 0xFFFF;
    match r {
        Ok(()) => {
            assert!(fits(a) && fits(b) && fits(c));
            assert!(out.len() == 6);
            let back = ReadScope::new(out.bytes())
                .read_dep::<LocaTable<'_>>((2, IndexToLocFormat::Short))
                .unwrap();
            assert!(back.offsets.len() == 3);
            assert!(back.offsets.get(0) == Some(a));
            assert!(back.offsets.get(1) == Some(b));
            assert!(back.offsets.get(2) == Some(c));
            assert!(back.offsets.last() == Some(c));
            assert!(back.offsets.get(3).is_none());
            kani::cover!(c == 131070, "largest short offset");
        }
        Err(e) => {
            assert!(!(fits(a) && fits(b) && fits(c)));
            assert!(matches!(e, WriteError::BadValue));
            kani::cover!(fits(a) && fits(b) && c == 131072, "one past the largest short offset");
        }
    }
    std::mem::forget(out);
}

/// loca, long format: every offset round-trips.
// @bound 3 offsets, each any u32
#[kani::proof]
#[kani::unwind(6)]
fn c09_loca_long_write_read() {
    let a: u32 = kani::any();
    let b: u32 = kani::any();
    let c: u32 = kani::any();
    let table = loca::owned::LocaTable { offsets: vec![a, b, c] };
    let mut out = WriteBuffer::new();
    loca::owned::LocaTable::write_dep(&mut out, table, IndexToLocFormat::Long).unwrap();
    assert!(out.len() == 12);
    let back = ReadScope::new(out.bytes())
        .read_dep::<LocaTable<'_>>((2, IndexToLocFormat::Long))
        .unwrap();
    assert!(back.offsets.len() == 3);
    assert!(back.offsets.get(0) == Some(a) && back.offsets.get(1) == Some(b) && back.offsets.get(2) == Some(c));
    // the iterator yields the same three values in order
    let mut k = 0usize;
    for v in back.offsets.iter() {
        assert!(Some(v) == back.offsets.get(k));
        k += 1;
    }
    assert!(k == 3);
    kani::cover!(a > 0xFFFF_0000, "large offset");
    std::mem::forget(out);
}

/// The head writer leaves checkSumAdjustment zero (so that the file checksum can be
/// computed) and hands back a placeholder that patches exactly bytes 8..12.
// @bound every head table value; every adjustment value
#[kani::proof]
#[kani::unwind(56)]
fn c09_head_adjustment_placeholder() {
    let mut buf: [u8; 54] = kani::any();
    put32(&mut buf, 12, 0x5F0F_3CF5);
    put16(&mut buf, 50, 1);
    let head = ReadScope::new(&buf).read::<HeadTable>().unwrap();
    let mut out = WriteBuffer::new();
    let ph = HeadTable::write(&mut out, &head).unwrap();
    let mut before = [0u8; 54];
    let mut i = 0;
    while i < 54 {
        before[i] = out.bytes()[i];
        i += 1;
    }
    assert!(be32(&before, 8) == 0);
    let adj: u32 = kani::any();
    out.write_placeholder(ph, adj).unwrap();
    assert!(out.len() == 54);
    let mut i = 0;
    while i < 54 {
        if i < 8 || i >= 12 {
            assert!(out.bytes()[i] == before[i]);
        }
        i += 1;
    }
    assert!(be32(out.bytes(), 8) == adj);
    // with the adjustment 0xB1B0AFBA - sum(file) the whole-file checksum is the magic value:
    // checked here on the head table alone (file == head)
    kani::cover!(adj == 0xB1B0_AFBA, "magic");
    std::mem::forget(out);
}
