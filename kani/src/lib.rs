//! Kani proof harnesses over the real allsorts crate (path dependency on /repo).
//!
//! One `#[kani::proof]` function is one obligation (DESIGN.md section 1).
//! Harness names start with the property id in lower case (`c14_...`) - the
//! driver (`/verif/check`) selects them by that prefix and reads the bound
//! and description of each obligation from `/verif/obligations/<ID>.json`.
//!
//! Nothing in here copies allsorts code: every harness calls the public API of
//! the crate as compiled from /repo's current working tree.
#![allow(dead_code, unused_imports, unused_macros, clippy::all)]
#![cfg_attr(all(kani, feature = "c17"), feature(slice_internals))]

#[cfg(kani)]
pub mod util;

#[cfg(all(kani, feature = "c01"))]
mod c01;
#[cfg(all(kani, feature = "c02"))]
mod c02;
#[cfg(all(kani, feature = "c03"))]
mod c03;
#[cfg(all(kani, feature = "c04"))]
mod c04;
#[cfg(all(kani, feature = "c04_apply"))]
mod c04_apply;
#[cfg(all(kani, feature = "c04_sub"))]
mod c04_sub;
#[cfg(all(kani, feature = "c05"))]
mod c05;
#[cfg(all(kani, feature = "c05_apply"))]
mod c05_apply;
#[cfg(all(kani, feature = "c05_pos"))]
mod c05_pos;
#[cfg(all(kani, feature = "c06"))]
mod c06;
#[cfg(all(kani, feature = "c07"))]
mod c07;
#[cfg(all(kani, feature = "c09"))]
mod c09;
#[cfg(all(kani, feature = "c10"))]
mod c10;
#[cfg(all(kani, feature = "c11"))]
mod c11;
#[cfg(all(kani, feature = "c13"))]
mod c13;
#[cfg(all(kani, feature = "c14"))]
mod c14;
#[cfg(all(kani, feature = "c14_gen"))]
mod c14_gen;
#[cfg(all(kani, feature = "c15"))]
mod c15;
#[cfg(all(kani, feature = "c16_packed"))]
mod c16_packed;
#[cfg(all(kani, feature = "c15_glyf"))]
mod c15_glyf;
#[cfg(all(kani, feature = "c15_cff"))]
mod c15_cff;
#[cfg(all(kani, feature = "c18_charset"))]
mod c18_charset;
#[cfg(all(kani, feature = "c16"))]
mod c16;
#[cfg(all(kani, feature = "c12"))]
mod c12;
#[cfg(all(kani, feature = "c17"))]
mod c17;
#[cfg(all(kani, feature = "c18"))]
mod c18;
#[cfg(all(kani, feature = "gen"))]
mod gen;
