//! C05 (second module) - GPOS subtables parsed from bytes and their `apply` lookups, with the
//! layout caches stubbed out of the formula (see `util::stub_read_cache`).
//!
//! @funcs SinglePos::{read_dep, apply}, PairPos::{read_dep, apply}, PairSet::read_dep, PairValueRecord::read_dep, Class1Record::read_dep, Class2Record::read_dep, CursivePos::{read_dep, apply}, MarkBasePos::{read_dep, apply}, Coverage::read, ClassDef::read, ValueRecord::read_dep, Anchor::read, LayoutTable::<GPOS>::read, layout::new_layout_cache
//! @stub ReadScope::read_cache -> the same read without memoisation (util::stub_read_cache); std RandomState::new -> constant state
//! @out lookup application in gpos.rs (which glyph pairs are visited, lookup flags, cursive chains, mark attachment to ligature components), glyph_positions; subtables larger than stated

use crate::util::*;
use allsorts::binary::read::ReadScope;
use allsorts::layout::{
    new_layout_cache, CursivePos, LayoutCache, LayoutTable, MarkBasePos, PairPos, SinglePos, GPOS,
};

fn gpos_cache() -> LayoutCache<GPOS> {
    // an empty GPOS table: version 1.0, no script / feature / lookup list
    static HEADER: [u8; 10] = [0, 1, 0, 0, 0, 0, 0, 0, 0, 0];
    let table = ReadScope::new(&HEADER).read::<LayoutTable<GPOS>>().unwrap();
    new_layout_cache(table)
}

/// SinglePos format 1 (one value for every covered glyph) and format 2 (one value per coverage
/// index); the format is fixed per harness.
fn single_pos(fmt: u16) {
    let mut buf: [u8; 24] = kani::any();
    put16(&mut buf, 0, fmt);
    put16(&mut buf, 2, 16); // coverage offset
    put16(&mut buf, 4, 0x0005);
    if fmt == 2 {
        put16(&mut buf, 6, 2); // valueCount, records at 8 and 12
    }
    put16(&mut buf, 16, 1);
    put16(&mut buf, 18, 2);
    let (g0, g1) = (be16(&buf, 20), be16(&buf, 22));
    kani::assume(g0 < g1);
    let cache = gpos_cache();
    let sp = ReadScope::new(&buf).read_dep::<SinglePos>(&cache).unwrap();
    let q: u16 = kani::any();
    let got = sp.apply(q).unwrap();
    let idx = if q == g0 { Some(0usize) } else if q == g1 { Some(1) } else { None };
    match idx {
        None => assert!(got.is_none(), "uncovered glyph is not adjusted"),
        Some(i) => {
            let at = if fmt == 1 { 6 } else { 8 + 4 * i };
            let adj = got.unwrap();
            assert!(adj.x_placement == be16(&buf, at) as i16 && adj.x_advance == be16(&buf, at + 2) as i16);
            assert!(adj.y_placement == 0 && adj.y_advance == 0);
        }
    }
    kani::cover!(idx == Some(1), "second covered glyph");
    std::mem::forget(sp);
    std::mem::forget(cache);
}

// @bound SinglePos format 1, coverage format 1 with 2 symbolic glyphs, valueFormat 0x0005 (xPlacement + xAdvance), every value, every query glyph
#[kani::proof]
#[kani::unwind(10)]
#[kani::stub(allsorts::binary::read::ReadScope::read_cache, crate::util::stub_read_cache)]
#[kani::stub(std::collections::hash_map::RandomState::new, crate::util::stub_random_state)]
fn c05_single_pos_format1() {
    single_pos(1);
}

// @bound SinglePos format 2 with 2 value records, coverage format 1 with 2 symbolic glyphs, valueFormat 0x0005, every value, every query glyph
#[kani::proof]
#[kani::unwind(10)]
#[kani::stub(allsorts::binary::read::ReadScope::read_cache, crate::util::stub_read_cache)]
#[kani::stub(std::collections::hash_map::RandomState::new, crate::util::stub_random_state)]
fn c05_single_pos_format2() {
    single_pos(2);
}

/// PairPos format 1: the pair set of the first glyph's coverage index is searched for the second
/// glyph; both value records of the matching pair are returned.
// @bound coverage format 1 with 2 glyphs, 2 pair sets of 2 and 1 pair value records, valueFormat1 0x0004 (xAdvance), valueFormat2 0x0001 (xPlacement); every glyph id and value; every query pair
#[kani::proof]
#[kani::unwind(10)]
#[kani::stub(allsorts::binary::read::ReadScope::read_cache, crate::util::stub_read_cache)]
#[kani::stub(std::collections::hash_map::RandomState::new, crate::util::stub_random_state)]
fn c05_pair_pos_format1() {
    let mut buf: [u8; 44] = kani::any();
    put16(&mut buf, 0, 1);
    put16(&mut buf, 2, 36); // coverage
    put16(&mut buf, 4, 0x0004);
    put16(&mut buf, 6, 0x0001);
    put16(&mut buf, 8, 2); // pairSetCount
    put16(&mut buf, 10, 14); // pair set 0
    put16(&mut buf, 12, 28); // pair set 1
    put16(&mut buf, 14, 2); // pairValueCount; records of 6 bytes at 16, 22
    put16(&mut buf, 28, 1); // pairValueCount; record at 30
    put16(&mut buf, 36, 1);
    put16(&mut buf, 38, 2);
    let (g0, g1) = (be16(&buf, 40), be16(&buf, 42));
    kani::assume(g0 < g1);
    // second glyphs of a pair set are sorted and distinct
    kani::assume(be16(&buf, 16) < be16(&buf, 22));
    let cache = gpos_cache();
    let pp = ReadScope::new(&buf).read_dep::<PairPos>(&cache).unwrap();
    let (a, b): (u16, u16) = (kani::any(), kani::any());
    let got = pp.apply(a, b).unwrap();
    let rec = if a == g0 {
        if b == be16(&buf, 16) {
            Some(16)
        } else if b == be16(&buf, 22) {
            Some(22)
        } else {
            None
        }
    } else if a == g1 {
        if b == be16(&buf, 30) {
            Some(30)
        } else {
            None
        }
    } else {
        None
    };
    match rec {
        None => assert!(got.is_none()),
        Some(at) => {
            let (v1, v2) = got.unwrap();
            let (v1, v2) = (v1.unwrap(), v2.unwrap());
            assert!(v1.x_advance == be16(&buf, at + 2) as i16 && v1.x_placement == 0);
            assert!(v2.x_placement == be16(&buf, at + 4) as i16 && v2.x_advance == 0);
        }
    }
    kani::cover!(rec == Some(22), "second pair of the first set");
    kani::cover!(rec == Some(30), "pair of the second set");
    std::mem::forget(pp);
    std::mem::forget(cache);
}

/// PairPos format 2: the cell (class of glyph 1 in classDef1, class of glyph 2 in classDef2) of
/// the class matrix, for a covered first glyph.
// @bound coverage format 1 with 2 glyphs, classDef1 and classDef2 format 1 with 2 symbolic class values each (classes below 2), 2x2 class matrix, valueFormat1 0x0004, valueFormat2 0; every value; every query pair
#[kani::proof]
#[kani::unwind(10)]
#[kani::stub(allsorts::binary::read::ReadScope::read_cache, crate::util::stub_read_cache)]
#[kani::stub(std::collections::hash_map::RandomState::new, crate::util::stub_random_state)]
fn c05_pair_pos_format2() {
    let mut buf: [u8; 52] = kani::any();
    put16(&mut buf, 0, 2);
    put16(&mut buf, 2, 24); // coverage
    put16(&mut buf, 4, 0x0004);
    put16(&mut buf, 6, 0);
    put16(&mut buf, 8, 32); // classDef1
    put16(&mut buf, 10, 42); // classDef2
    put16(&mut buf, 12, 2); // class1Count
    put16(&mut buf, 14, 2); // class2Count; matrix of 4 x 2 bytes at 16..24
    put16(&mut buf, 24, 1);
    put16(&mut buf, 26, 2);
    let (g0, g1) = (be16(&buf, 28), be16(&buf, 30));
    kani::assume(g0 < g1);
    // classDef format 1: startGlyph, count 2, two class values
    put16(&mut buf, 32, 1);
    put16(&mut buf, 36, 2);
    put16(&mut buf, 42, 1);
    put16(&mut buf, 46, 2);
    let (s1, s2) = (be16(&buf, 34), be16(&buf, 44));
    kani::assume(s1 < 0xFFFE && s2 < 0xFFFE);
    let c1 = [be16(&buf, 38), be16(&buf, 40)];
    let c2 = [be16(&buf, 48), be16(&buf, 50)];
    kani::assume(c1[0] < 2 && c1[1] < 2 && c2[0] < 2 && c2[1] < 2);
    let cache = gpos_cache();
    let pp = ReadScope::new(&buf).read_dep::<PairPos>(&cache).unwrap();
    let (a, b): (u16, u16) = (kani::any(), kani::any());
    let got = pp.apply(a, b).unwrap();
    let class = |g: u16, s: u16, c: [u16; 2]| if g >= s && g - s < 2 { c[(g - s) as usize] } else { 0 };
    if a == g0 || a == g1 {
        let (k1, k2) = (class(a, s1, c1) as usize, class(b, s2, c2) as usize);
        let (v1, v2) = got.unwrap();
        assert!(v1.unwrap().x_advance == be16(&buf, 16 + 2 * (2 * k1 + k2)) as i16, "class matrix cell");
        assert!(v2.is_none());
        kani::cover!(k1 == 1 && k2 == 1, "last cell");
        kani::cover!(k1 == 1 && k2 == 0);
    } else {
        assert!(got.is_none(), "first glyph not covered");
    }
    std::mem::forget(pp);
    std::mem::forget(cache);
}

/// CursivePos: the exit anchor of the first glyph and the entry anchor of the second, each looked
/// up by the glyph's own coverage index; a NULL anchor offset on either side means no connection.
// @bound coverage format 1 with 2 glyphs, 2 entry/exit records whose 4 anchor offsets are each NULL or point at one of 4 format-1 anchors with symbolic coordinates; every query pair
#[kani::proof]
#[kani::unwind(10)]
#[kani::stub(allsorts::binary::read::ReadScope::read_cache, crate::util::stub_read_cache)]
#[kani::stub(std::collections::hash_map::RandomState::new, crate::util::stub_random_state)]
fn c05_cursive_pos() {
    let mut buf: [u8; 46] = kani::any();
    put16(&mut buf, 0, 1);
    put16(&mut buf, 2, 14); // coverage
    put16(&mut buf, 4, 2); // entryExitCount; records at 6 and 10
    put16(&mut buf, 14, 1);
    put16(&mut buf, 16, 2);
    let (g0, g1) = (be16(&buf, 18), be16(&buf, 20));
    kani::assume(g0 < g1);
    // four anchors of 6 bytes at 22, 28, 34, 40 (format 1)
    let mut k = 0;
    while k < 4 {
        put16(&mut buf, 22 + 6 * k, 1);
        k += 1;
    }
    // offsets: NULL or the k-th anchor
    let mut off = [0u16; 4];
    let mut k = 0;
    while k < 4 {
        let present: bool = kani::any();
        off[k] = if present { (22 + 6 * k) as u16 } else { 0 };
        put16(&mut buf, 6 + 2 * k, off[k]);
        k += 1;
    }
    let cache = gpos_cache();
    let cp = ReadScope::new(&buf).read_dep::<CursivePos>(&cache).unwrap();
    let (a, b): (u16, u16) = (kani::any(), kani::any());
    let got = cp.apply(a, b).unwrap();
    let idx = |g: u16| if g == g0 { Some(0usize) } else if g == g1 { Some(1) } else { None };
    match (idx(a), idx(b)) {
        (Some(i), Some(j)) => {
            let exit = off[2 * i + 1]; // record i: (entry, exit)
            let entry = off[2 * j];
            if exit != 0 && entry != 0 {
                let (x, e) = got.unwrap();
                assert!(x.x == be16(&buf, exit as usize + 2) as i16 && x.y == be16(&buf, exit as usize + 4) as i16, "exit anchor of the first glyph");
                assert!(e.x == be16(&buf, entry as usize + 2) as i16 && e.y == be16(&buf, entry as usize + 4) as i16, "entry anchor of the second glyph");
                kani::cover!(i == 1 && j == 0, "second glyph's exit to first glyph's entry");
            } else {
                assert!(got.is_none());
            }
        }
        _ => assert!(got.is_none()),
    }
    kani::cover!(got.is_some());
    std::mem::forget(cp);
    std::mem::forget(cache);
}

/// MarkBasePos (also used for mark-to-mark): the base anchor for the mark's class in the base
/// glyph's record, and the mark's own anchor.
// @bound mark coverage with 1 glyph, base coverage with 1 glyph, 2 mark classes (the mark's class symbolic below 2), base record with 2 anchor offsets (second may be NULL), format-1 anchors with symbolic coordinates; every query pair
#[kani::proof]
#[kani::unwind(10)]
#[kani::stub(allsorts::binary::read::ReadScope::read_cache, crate::util::stub_read_cache)]
#[kani::stub(std::collections::hash_map::RandomState::new, crate::util::stub_random_state)]
fn c05_mark_base_pos() {
    let mut buf: [u8; 54] = kani::any();
    put16(&mut buf, 0, 1);
    put16(&mut buf, 2, 12); // mark coverage
    put16(&mut buf, 4, 18); // base coverage
    put16(&mut buf, 6, 2); // markClassCount
    put16(&mut buf, 8, 24); // mark array
    put16(&mut buf, 10, 36); // base array
    put16(&mut buf, 12, 1);
    put16(&mut buf, 14, 1);
    let mark = be16(&buf, 16);
    put16(&mut buf, 18, 1);
    put16(&mut buf, 20, 1);
    let base = be16(&buf, 22);
    // mark array at 24: count 1, record (class, anchorOffset from the mark array) at 26; anchor at 30
    put16(&mut buf, 24, 1);
    let class = be16(&buf, 26) as usize;
    kani::assume(class < 2);
    put16(&mut buf, 28, 6);
    put16(&mut buf, 30, 1);
    // base array at 36: count 1, record with 2 anchor offsets (from the base array) at 38, 40; anchors at 42, 48
    put16(&mut buf, 36, 1);
    put16(&mut buf, 38, 6);
    let second_present: bool = kani::any();
    put16(&mut buf, 40, if second_present { 12 } else { 0 });
    put16(&mut buf, 42, 1);
    put16(&mut buf, 48, 1);
    let cache = gpos_cache();
    let mb = ReadScope::new(&buf).read_dep::<MarkBasePos>(&cache).unwrap();
    let (b, m): (u16, u16) = (kani::any(), kani::any());
    let got = mb.apply(b, m).unwrap();
    if b == base && m == mark {
        if class == 1 && !second_present {
            assert!(got.is_none(), "no base anchor for that mark class");
        } else {
            let base_anchor = 42 + 6 * class;
            let (ba, ma) = got.unwrap();
            assert!(ba.x == be16(&buf, base_anchor + 2) as i16 && ba.y == be16(&buf, base_anchor + 4) as i16, "base anchor of the mark's class");
            assert!(ma.x == be16(&buf, 32) as i16 && ma.y == be16(&buf, 34) as i16, "the mark's own anchor");
            kani::cover!(class == 1, "second mark class");
        }
    } else {
        assert!(got.is_none());
    }
    kani::cover!(got.is_some());
    std::mem::forget(mb);
    std::mem::forget(cache);
}
