//! C10 - OpenType, collection and WOFF containers yield exactly the stored tables.
//!
//! Shape fields (number of tables / fonts) are concrete per harness, every other
//! byte of the file is symbolic, and the file is parsed by the real readers.
//!
//! @funcs OpenTypeFont::read, OffsetTable::read, TTCHeader::read, OpenTypeFont::table_provider, OffsetTable::find_table_record, OffsetTable::read_table, TableRecord::read_table
//! @funcs OffsetTableFontProvider::{table_data, has_table, table_tags, sfnt_version}, WoffFont::read, WoffHeader::read, woff::TableDirectoryEntry::read_table (uncompressed arm), WoffFont::{table_data, has_table, table_tags, flavor}, FontData::read, FontData::table_provider
//! @out compressed WOFF entries (zlib/flate2 is not encoded), WOFF metadata, more than 2 directory entries (3 in the thorough tier), files longer than the harness buffer, the WOFF2 arm of FontData::read beyond its selection

use crate::util::*;
use allsorts::binary::read::ReadScope;
use allsorts::error::ParseError;
use allsorts::font_data::FontData;
use allsorts::tables::{FontTableProvider, OpenTypeData, OpenTypeFont, SfntVersion};
use allsorts::woff::WoffFont;

const TTF: u32 = 0x0001_0000;
const TRUE: u32 = 0x7472_7565;
const OTTO: u32 = 0x4F54_544F;
const TTCF: u32 = 0x7474_6366;
const WOFF: u32 = 0x774F_4646;
const WOF2: u32 = 0x774F_4632;

fn is_sfnt_magic(m: u32) -> bool {
    m == TTF || m == TRUE || m == OTTO
}

/// Reference: what `offset_length(off, len)` on a file of `n` bytes must yield.
/// Some((off,len)) = that window, None = error.
fn window(n: usize, off: u32, len: u32) -> Option<(usize, usize)> {
    let off = off as usize;
    let len = len as usize;
    if len == 0 {
        return Some((if off < n { off } else { n }, 0));
    }
    if off < n && len <= n - off {
        Some((off, len))
    } else {
        None
    }
}

/// Compare returned table bytes against the file window at a symbolic position.
fn same_bytes(got: &[u8], file: &[u8], off: usize, len: usize) {
    assert!(got.len() == len);
    let k: usize = kani::any();
    if k < len {
        assert!(got[k] == file[off + k]);
    }
}

macro_rules! sfnt_harness {
    ($name:ident, $nrec:expr, $size:expr, $unwind:expr) => {
        #[kani::proof]
        #[kani::unwind($unwind)]
        fn $name() {
            const NREC: usize = $nrec;
            const SIZE: usize = $size;
            let mut buf: [u8; SIZE] = kani::any();
            put16(&mut buf, 4, NREC as u16);
            let magic = be32(&buf, 0);
            kani::assume(is_sfnt_magic(magic));
            let q: u32 = kani::any();
            // distinct tags (a directory with duplicate tags has no single "stored table")
            let mut a = 0;
            while a < NREC {
                let mut b = a + 1;
                while b < NREC {
                    kani::assume(be32(&buf, 12 + 16 * a) != be32(&buf, 12 + 16 * b));
                    b += 1;
                }
                a += 1;
            }
            let scope = ReadScope::new(&buf);
            match scope.read::<OpenTypeFont<'_>>() {
                Err(_) => assert!(false),
                Ok(font) => {
                    let i: usize = kani::any(); // index is ignored for a single font
                    let provider = font.table_provider(i).unwrap();
                    assert!(provider.sfnt_version() == magic);
                    // reference directory lookup
                    let mut hit: Option<usize> = None;
                    let mut r = 0;
                    while r < NREC {
                        if hit.is_none() && be32(&buf, 12 + 16 * r) == q {
                            hit = Some(r);
                        }
                        r += 1;
                    }
                    assert!(provider.has_table(q) == hit.is_some());
                    let got = provider.table_data(q);
                    match hit {
                        None => {
                            assert!(matches!(got, Ok(None)));
                            assert!(provider.read_table_data(q) == Err(ParseError::MissingTable(q)));
                            kani::cover!(true, "absent tag");
                        }
                        Some(r) => {
                            let off = be32(&buf, 12 + 16 * r + 8);
                            let len = be32(&buf, 12 + 16 * r + 12);
                            match window(SIZE, off, len) {
                                Some((o, l)) => match got {
                                    Ok(Some(data)) => {
                                        same_bytes(&data, &buf, o, l);
                                        kani::cover!(l == 3 && r == NREC - 1, "3-byte table of the last record");
                                    }
                                    _ => assert!(false),
                                },
                                None => {
                                    assert!(got.is_err());
                                    kani::cover!(true, "record outside the file");
                                }
                            }
                        }
                    }
                }
            }
        }
    };
}

// @bound file of 52 bytes: 12-byte offset table + 2 table records + 8 data bytes; every byte symbolic except numTables = 2; query tag any u32
// @release
sfnt_harness!(c10_sfnt_two_records, 2, 52, 8);

// @tier thorough
// @bound file of 68 bytes: 3 table records + 8 data bytes; every byte symbolic except numTables = 3
sfnt_harness!(c10_sfnt_three_records, 3, 68, 8);

/// A truncated directory is an error, never a shorter directory.
// @bound file of <= 44 bytes truncated anywhere, numTables any u16
#[kani::proof]
#[kani::unwind(8)]
fn c10_sfnt_truncated_directory() {
    let buf: [u8; 44] = kani::any();
    let len = any_len(44);
    let scope = ReadScope::new(&buf[..len]);
    match scope.read::<OpenTypeFont<'_>>() {
        Ok(font) => {
            assert!(len >= 12);
            let magic = be32(&buf, 0);
            if is_sfnt_magic(magic) {
                let n = be16(&buf, 4) as usize;
                assert!(12 + 16 * n <= len);
                match &font.data {
                    OpenTypeData::Single(t) => assert!(t.table_records.len() == n),
                    _ => assert!(false),
                }
                kani::cover!(n == 2, "two records fit");
            } else {
                assert!(magic == TTCF);
            }
        }
        Err(_) => {
            if len >= 12 && is_sfnt_magic(be32(&buf, 0)) {
                assert!(12 + 16 * (be16(&buf, 4) as usize) > len);
                kani::cover!(true, "directory truncated");
            }
        }
    }
}

/// TrueType collection with two members whose offset tables sit at symbolic
/// offsets: member i is parsed at offsets[i]; an index beyond the end is an error.
// @bound file of 64 bytes: ttcf header with numFonts = 2, everything else symbolic (member offsets anywhere, members with <= 1 table record); member index any usize
// @release
#[kani::proof]
#[kani::unwind(8)]
fn c10_ttc_two_members() {
    const SIZE: usize = 64;
    let mut buf: [u8; SIZE] = kani::any();
    put32(&mut buf, 0, TTCF);
    put32(&mut buf, 8, 2);
    let major = be16(&buf, 4);
    let i: usize = kani::any();
    let q: u32 = kani::any();
    let scope = ReadScope::new(&buf);
    match scope.read::<OpenTypeFont<'_>>() {
        Err(e) => {
            assert!(major != 1 && major != 2);
            assert!(e == ParseError::BadValue);
        }
        Ok(font) => {
            assert!(major == 1 || major == 2);
            match font.table_provider(i) {
                Err(e) => {
                    if i >= 2 {
                        assert!(e == ParseError::BadIndex);
                        kani::cover!(true, "member index beyond the end");
                    } else {
                        // the member's offset table itself must be unreadable
                        let off = be32(&buf, 12 + 4 * i) as usize;
                        let readable = off + 12 <= SIZE
                            && is_sfnt_magic(be32(&buf, off))
                            && off + 12 + 16 * (be16(&buf, off + 4) as usize) <= SIZE;
                        assert!(!readable);
                    }
                }
                Ok(provider) => {
                    assert!(i < 2);
                    let off = be32(&buf, 12 + 4 * i) as usize;
                    assert!(off + 12 <= SIZE);
                    assert!(provider.sfnt_version() == be32(&buf, off));
                    assert!(is_sfnt_magic(be32(&buf, off)));
                    let n = be16(&buf, off + 4) as usize;
                    assert!(off + 12 + 16 * n <= SIZE);
                    kani::assume(n <= 1);
                    if n == 1 {
                        let tag = be32(&buf, off + 12);
                        assert!(provider.has_table(q) == (tag == q));
                        if tag == q {
                            let toff = be32(&buf, off + 12 + 8);
                            let tlen = be32(&buf, off + 12 + 12);
                            match (window(SIZE, toff, tlen), provider.table_data(q)) {
                                // table offsets in a collection are from the start of the file
                                (Some((o, l)), Ok(Some(data))) => {
                                    same_bytes(&data, &buf, o, l);
                                    kani::cover!(i == 1 && l == 2, "table of member 1");
                                }
                                (None, Err(_)) => {}
                                _ => assert!(false),
                            }
                        } else {
                            assert!(matches!(provider.table_data(q), Ok(None)));
                        }
                    } else {
                        assert!(!provider.has_table(q));
                    }
                }
            }
        }
    }
}

/// A collection with a single member still checks the member index.
// @bound 48-byte file: ttcf header with numFonts = 1, member offset and member contents symbolic; member index any usize
#[kani::proof]
#[kani::unwind(8)]
fn c10_ttc_one_member() {
    const SIZE: usize = 48;
    let mut buf: [u8; SIZE] = kani::any();
    put32(&mut buf, 0, TTCF);
    put16(&mut buf, 4, 1);
    put32(&mut buf, 8, 1);
    let i: usize = kani::any();
    let scope = ReadScope::new(&buf);
    let font = scope.read::<OpenTypeFont<'_>>().unwrap();
    match font.table_provider(i) {
        Ok(provider) => {
            assert!(i == 0);
            let off = be32(&buf, 12) as usize;
            assert!(off + 12 <= SIZE && provider.sfnt_version() == be32(&buf, off));
            kani::cover!(true, "the only member");
        }
        Err(e) => {
            if i >= 1 {
                assert!(e == ParseError::BadIndex);
                kani::cover!(true, "index beyond a one-font collection");
            }
        }
    }
}

macro_rules! woff_harness {
    ($name:ident, $nrec:expr, $size:expr) => {
        #[kani::proof]
        #[kani::unwind(8)]
        fn $name() {
            const NREC: usize = $nrec;
            const SIZE: usize = $size;
            let mut buf: [u8; SIZE] = kani::any();
            put32(&mut buf, 0, WOFF);
            put16(&mut buf, 12, NREC as u16);
            let reserved = be16(&buf, 14);
            let flavor = be32(&buf, 4);
            let q: u32 = kani::any();
            let mut a = 0;
            while a < NREC {
                let mut b = a + 1;
                while b < NREC {
                    kani::assume(be32(&buf, 44 + 20 * a) != be32(&buf, 44 + 20 * b));
                    b += 1;
                }
                a += 1;
            }
            let scope = ReadScope::new(&buf);
            match scope.read::<WoffFont<'_>>() {
                Err(e) => {
                    assert!(reserved != 0 && e == ParseError::BadValue);
                    kani::cover!(true, "reserved field set");
                }
                Ok(font) => {
                    assert!(reserved == 0);
                    assert!(font.flavor() == flavor && font.sfnt_version() == flavor);
                    let mut hit: Option<usize> = None;
                    let mut r = 0;
                    while r < NREC {
                        if hit.is_none() && be32(&buf, 44 + 20 * r) == q {
                            hit = Some(r);
                        }
                        r += 1;
                    }
                    assert!(font.has_table(q) == hit.is_some());
                    match hit {
                        None => {
                            assert!(matches!(font.table_data(q), Ok(None)));
                            kani::cover!(true, "absent tag");
                        }
                        Some(r) => {
                            let e = 44 + 20 * r;
                            let off = be32(&buf, e + 4);
                            let comp = be32(&buf, e + 8);
                            let orig = be32(&buf, e + 12);
                            // stored uncompressed (compressed entries: outside the bound)
                            kani::assume(comp == orig);
                            match (window(SIZE, off, comp), font.table_data(q)) {
                                (Some((o, l)), Ok(Some(data))) => {
                                    same_bytes(&data, &buf, o, l);
                                    kani::cover!(l == 4 && r == NREC - 1, "4-byte table of the last entry");
                                }
                                (None, Err(_)) => {
                                    kani::cover!(true, "entry outside the file");
                                }
                                _ => assert!(false),
                            }
                        }
                    }
                }
            }
        }
    };
}

// @bound WOFF file of 92 bytes: 44-byte header + 2 directory entries + 8 data bytes; all bytes symbolic except signature and numTables = 2; entries with compLength == origLength
woff_harness!(c10_woff_two_entries, 2, 92);

// @tier thorough
// @bound WOFF file of 112 bytes: 3 directory entries + 8 data bytes
woff_harness!(c10_woff_three_entries, 3, 112);

/// FontData::read selects the container by the magic number: one harness per
/// known magic (the magic is concrete so that the brotli arm of WOFF2 is
/// constant-folded away; a symbolic magic drags the decompressor into the
/// formula and does not finish).
macro_rules! dispatch_harness {
    ($name:ident, $magic:expr) => {
        #[kani::proof]
        #[kani::unwind(8)]
        fn $name() {
            let mut buf: [u8; 64] = kani::any();
            put32(&mut buf, 0, $magic);
            let magic: u32 = $magic;
            if is_sfnt_magic(magic) {
                kani::assume(be16(&buf, 4) <= 2);
            }
            if magic == TTCF {
                kani::assume(be32(&buf, 8) <= 2);
            }
            if magic == WOFF {
                kani::assume(be16(&buf, 12) <= 1);
            }
            let scope = ReadScope::new(&buf);
            match scope.read::<FontData<'_>>() {
                Ok(FontData::OpenType(font)) => {
                    assert!(is_sfnt_magic(magic) || magic == TTCF);
                    match &font.data {
                        OpenTypeData::Single(t) => assert!(is_sfnt_magic(magic) && t.sfnt_version == magic),
                        OpenTypeData::Collection(_) => assert!(magic == TTCF),
                    }
                }
                Ok(FontData::Woff(font)) => {
                    assert!(magic == WOFF);
                    assert!(font.flavor() == be32(&buf, 4));
                }
                Ok(FontData::Woff2(_)) => assert!(false),
                Err(e) => {
                    assert!(is_sfnt_magic(magic) || magic == TTCF || magic == WOFF || e == ParseError::BadVersion);
                }
            }
            kani::cover!(true, "dispatch completed");
        }
    };
}

// @bound file of 64 bytes, magic fixed, everything else symbolic (directory counts <= 2)
dispatch_harness!(c10_fontdata_dispatch_ttf, TTF);
// @bound file of 64 bytes, magic fixed, everything else symbolic
dispatch_harness!(c10_fontdata_dispatch_otto, OTTO);
// @bound file of 64 bytes, magic fixed, everything else symbolic
dispatch_harness!(c10_fontdata_dispatch_true, TRUE);
// @bound file of 64 bytes, magic fixed, everything else symbolic
dispatch_harness!(c10_fontdata_dispatch_ttcf, TTCF);
// @bound file of 64 bytes, magic fixed, everything else symbolic
dispatch_harness!(c10_fontdata_dispatch_woff, WOFF);
// @bound file of 64 bytes with the unknown magic 0x12345678 (one concrete representative; the claim for ALL unknown magics is made per container reader in c10_unknown_magic_rejected)
dispatch_harness!(c10_fontdata_dispatch_unknown, 0x1234_5678);

/// Every magic other than the known ones is rejected with BadVersion by each
/// container reader (symbolic magic; FontData::read itself cannot take a
/// symbolic magic, see above).
// @bound 48-byte buffer, all symbolic
#[kani::proof]
#[kani::unwind(8)]
fn c10_unknown_magic_rejected() {
    let buf: [u8; 48] = kani::any();
    let magic = be32(&buf, 0);
    let scope = ReadScope::new(&buf);
    if !is_sfnt_magic(magic) && magic != TTCF {
        assert!(matches!(scope.read::<OpenTypeFont<'_>>(), Err(ParseError::BadVersion)));
    }
    if !is_sfnt_magic(magic) {
        assert!(matches!(scope.read::<allsorts::tables::OffsetTable<'_>>(), Err(ParseError::BadVersion)));
    }
    if magic != WOFF {
        assert!(matches!(scope.read::<allsorts::woff::WoffHeader>(), Err(ParseError::BadVersion)));
    }
    if magic != WOF2 {
        assert!(matches!(scope.read::<allsorts::woff2::Woff2Header>(), Err(ParseError::BadVersion)));
    }
    kani::cover!(magic == 0x4F54544E, "near miss of OTTO");
}

/// table_tags() lists exactly the directory's tags, in directory order (sfnt and WOFF).
// @bound sfnt of 44 bytes with 2 records and WOFF of 84 bytes with 2 entries, all other bytes symbolic
#[kani::proof]
#[kani::unwind(8)]
fn c10_table_tags() {
    let mut buf: [u8; 44] = kani::any();
    put16(&mut buf, 4, 2);
    kani::assume(is_sfnt_magic(be32(&buf, 0)));
    let font = ReadScope::new(&buf).read::<OpenTypeFont<'_>>().unwrap();
    let provider = font.table_provider(0).unwrap();
    let tags = provider.table_tags().unwrap();
    assert!(tags.len() == 2);
    assert!(tags[0] == be32(&buf, 12) && tags[1] == be32(&buf, 28));
    std::mem::forget(tags);

    let mut wbuf: [u8; 84] = kani::any();
    put32(&mut wbuf, 0, WOFF);
    put16(&mut wbuf, 12, 2);
    put16(&mut wbuf, 14, 0);
    let wfont = ReadScope::new(&wbuf).read::<WoffFont<'_>>().unwrap();
    let wtags = wfont.table_tags().unwrap();
    assert!(wtags.len() == 2);
    assert!(wtags[0] == be32(&wbuf, 44) && wtags[1] == be32(&wbuf, 64));
    std::mem::forget(wtags);
    kani::cover!(true, "both listed");
}
