//! C04 (second module) - GSUB subtables parsed from bytes and their per-glyph lookups, with the
//! layout caches stubbed out of the formula (see `util::stub_read_cache`).
//!
//! @funcs SingleSubst::{read_dep, apply_glyph}, MultipleSubst::{read_dep, apply_glyph}, SequenceTable::read, AlternateSubst::{read_dep, apply_glyph}, AlternateSet::read, LigatureSubst::{read_dep, apply_glyph}, LigatureSet::read, Ligature::read, ContextLookup::<GSUB>::read_dep (format 1), SubRuleSet::read, SubRule::read, layout::context_lookup_info, ReverseChainSingleSubst::{read_dep, apply_glyph}, MatchContext::matches, Coverage::read, layout::read_objects, LayoutTable::<GSUB>::read, layout::new_layout_cache
//! @stub ReadScope::read_cache -> the same read without memoisation (util::stub_read_cache); std RandomState::new -> constant state
//! @out chaining context format 3 (CBMC cannot bound the coverage-sequence matching loops: unwinding assertion, no verdict), context formats 2 and 3, the application loops in gsub.rs (which glyphs are visited, insertion and removal of glyphs, ligature component bookkeeping), lookup ordering, nested lookups, reverse chaining; subtables larger than stated

use crate::util::*;
use allsorts::binary::read::ReadScope;
use allsorts::context::{Glyph, LookupFlag, MatchType};
use allsorts::layout::{
    context_lookup_info, new_layout_cache, AlternateSubst, ContextLookup, LayoutCache, LayoutTable,
    LigatureSubst, MultipleSubst, ReverseChainSingleSubst, SingleSubst, GSUB,
};

#[derive(Copy, Clone)]
struct G(u16);

impl Glyph for G {
    fn get_glyph_index(&self) -> u16 {
        self.0
    }
}

fn gsub_cache() -> LayoutCache<GSUB> {
    static HEADER: [u8; 10] = [0, 1, 0, 0, 0, 0, 0, 0, 0, 0];
    let table = ReadScope::new(&HEADER).read::<LayoutTable<GSUB>>().unwrap();
    new_layout_cache(table)
}

/// SingleSubst format 1 (add deltaGlyphID modulo 65536) and format 2 (substitute array indexed by
/// the coverage index).
// @bound SingleSubst format 1 or 2 (symbolic), coverage format 1 with 2 symbolic glyphs, every delta / substitute value, every query glyph
#[kani::proof]
#[kani::unwind(8)]
#[kani::stub(allsorts::binary::read::ReadScope::read_cache, crate::util::stub_read_cache)]
#[kani::stub(std::collections::hash_map::RandomState::new, crate::util::stub_random_state)]
fn c04_single_subst() {
    let mut buf: [u8; 20] = kani::any();
    let fmt: u16 = if kani::any() { 1 } else { 2 };
    put16(&mut buf, 0, fmt);
    put16(&mut buf, 2, 12); // coverage offset
    if fmt == 2 {
        put16(&mut buf, 4, 2); // glyphCount; substitutes at 6, 8
    }
    put16(&mut buf, 12, 1);
    put16(&mut buf, 14, 2);
    let (g0, g1) = (be16(&buf, 16), be16(&buf, 18));
    kani::assume(g0 < g1);
    let cache = gsub_cache();
    let st = ReadScope::new(&buf).read_dep::<SingleSubst>(&cache).unwrap();
    let q: u16 = kani::any();
    let got = st.apply_glyph(q).unwrap();
    let idx = if q == g0 { Some(0usize) } else if q == g1 { Some(1) } else { None };
    let want = match idx {
        None => None,
        Some(i) => Some(if fmt == 1 { q.wrapping_add(be16(&buf, 4)) } else { be16(&buf, 6 + 2 * i) }),
    };
    assert!(got == want);
    kani::cover!(fmt == 1 && idx == Some(1) && (q as u32 + be16(&buf, 4) as u32) > 0xFFFF, "delta wraps");
    kani::cover!(fmt == 2 && idx == Some(1));
    std::mem::forget(st);
    std::mem::forget(cache);
}

/// MultipleSubst: the sequence table of the glyph's coverage index; AlternateSubst: the alternate
/// set of the glyph's coverage index.
// @bound coverage format 1 with 2 glyphs; 2 sequence tables / alternate sets of 2 and 1 glyphs with every value; every query glyph
#[kani::proof]
#[kani::unwind(8)]
#[kani::stub(allsorts::binary::read::ReadScope::read_cache, crate::util::stub_read_cache)]
#[kani::stub(std::collections::hash_map::RandomState::new, crate::util::stub_random_state)]
fn c04_multiple_and_alternate_subst() {
    let mut buf: [u8; 28] = kani::any();
    put16(&mut buf, 0, 1);
    put16(&mut buf, 2, 20); // coverage
    put16(&mut buf, 4, 2); // count
    put16(&mut buf, 6, 10); // table 0: count 2, glyphs at 12, 14
    put16(&mut buf, 8, 16); // table 1: count 1, glyph at 18
    put16(&mut buf, 10, 2);
    put16(&mut buf, 16, 1);
    put16(&mut buf, 20, 1);
    put16(&mut buf, 22, 2);
    let (g0, g1) = (be16(&buf, 24), be16(&buf, 26));
    kani::assume(g0 < g1);
    let cache = gsub_cache();
    let q: u16 = kani::any();
    let ms = ReadScope::new(&buf).read_dep::<MultipleSubst>(&cache).unwrap();
    let al = ReadScope::new(&buf).read_dep::<AlternateSubst>(&cache).unwrap();
    let m = ms.apply_glyph(q).unwrap();
    let a = al.apply_glyph(q).unwrap();
    if q == g0 {
        let (m, a) = (m.unwrap(), a.unwrap());
        assert!(m.substitute_glyphs.len() == 2 && a.alternate_glyphs.len() == 2);
        assert!(m.substitute_glyphs[0] == be16(&buf, 12) && m.substitute_glyphs[1] == be16(&buf, 14));
        assert!(a.alternate_glyphs[0] == be16(&buf, 12) && a.alternate_glyphs[1] == be16(&buf, 14));
    } else if q == g1 {
        let (m, a) = (m.unwrap(), a.unwrap());
        assert!(m.substitute_glyphs.len() == 1 && a.alternate_glyphs.len() == 1);
        assert!(m.substitute_glyphs[0] == be16(&buf, 18) && a.alternate_glyphs[0] == be16(&buf, 18));
        kani::cover!(true, "second covered glyph");
    } else {
        assert!(m.is_none() && a.is_none());
    }
    std::mem::forget(ms);
    std::mem::forget(al);
    std::mem::forget(cache);
}

/// LigatureSubst: the ligature set of the FIRST glyph's coverage index; each ligature lists its
/// result and its remaining components (componentCount - 1 of them).
// @bound coverage format 1 with 2 glyphs; ligature set 0 with 2 ligatures (3 and 2 components), ligature set 1 with 1 ligature (2 components); every glyph value; every query glyph
#[kani::proof]
#[kani::unwind(8)]
#[kani::stub(allsorts::binary::read::ReadScope::read_cache, crate::util::stub_read_cache)]
#[kani::stub(std::collections::hash_map::RandomState::new, crate::util::stub_random_state)]
fn c04_ligature_subst() {
    let mut buf: [u8; 50] = kani::any();
    put16(&mut buf, 0, 1);
    put16(&mut buf, 2, 42); // coverage
    put16(&mut buf, 4, 2); // ligatureSetCount
    put16(&mut buf, 6, 10); // set 0
    put16(&mut buf, 8, 30); // set 1
    // set 0 at 10: count 2, offsets (from the set) 6 -> 16 and 14 -> 24
    put16(&mut buf, 10, 2);
    put16(&mut buf, 12, 6);
    put16(&mut buf, 14, 14);
    put16(&mut buf, 18, 3); // ligature at 16: glyph, componentCount 3, components at 20, 22
    put16(&mut buf, 26, 2); // ligature at 24: glyph, componentCount 2, component at 28
    // set 1 at 30: count 1, offset 4 -> 34
    put16(&mut buf, 30, 1);
    put16(&mut buf, 32, 4);
    put16(&mut buf, 36, 2); // ligature at 34: glyph, componentCount 2, component at 38
    put16(&mut buf, 42, 1);
    put16(&mut buf, 44, 2);
    let (g0, g1) = (be16(&buf, 46), be16(&buf, 48));
    kani::assume(g0 < g1);
    let cache = gsub_cache();
    let ls = ReadScope::new(&buf).read_dep::<LigatureSubst>(&cache).unwrap();
    let q: u16 = kani::any();
    let got = ls.apply_glyph(q).unwrap();
    if q == g0 {
        let set = got.unwrap();
        assert!(set.ligatures.len() == 2);
        assert!(set.ligatures[0].ligature_glyph == be16(&buf, 16));
        assert!(set.ligatures[0].component_glyphs.len() == 2);
        assert!(set.ligatures[0].component_glyphs[0] == be16(&buf, 20) && set.ligatures[0].component_glyphs[1] == be16(&buf, 22));
        assert!(set.ligatures[1].ligature_glyph == be16(&buf, 24));
        assert!(set.ligatures[1].component_glyphs.len() == 1 && set.ligatures[1].component_glyphs[0] == be16(&buf, 28));
    } else if q == g1 {
        let set = got.unwrap();
        assert!(set.ligatures.len() == 1);
        assert!(set.ligatures[0].ligature_glyph == be16(&buf, 34));
        assert!(set.ligatures[0].component_glyphs.len() == 1 && set.ligatures[0].component_glyphs[0] == be16(&buf, 38));
        kani::cover!(true, "second ligature set");
    } else {
        assert!(got.is_none());
    }
    std::mem::forget(ls);
    std::mem::forget(cache);
}

/// Contextual substitution format 1: the rules of the first glyph's rule set are tried in font
/// order; the first rule whose input sequence matches supplies the (sequence index, lookup index)
/// records to apply.
// @bound ContextLookup format 1 with 1 covered glyph and a rule set of 2 rules (input of 2 glyphs, then input of 1 glyph), one lookup record each, every glyph id and record value; run of 2 glyphs with symbolic ids; no GDEF, lookup flag 0
#[kani::proof]
#[kani::unwind(8)]
#[kani::stub(allsorts::binary::read::ReadScope::read_cache, crate::util::stub_read_cache)]
#[kani::stub(std::collections::hash_map::RandomState::new, crate::util::stub_random_state)]
fn c04_context_format1_rule_order() {
    let mut buf: [u8; 38] = kani::any();
    put16(&mut buf, 0, 1);
    put16(&mut buf, 2, 32); // coverage
    put16(&mut buf, 4, 1); // subRuleSetCount
    put16(&mut buf, 6, 8);
    put16(&mut buf, 8, 2); // subRuleCount, offsets from the rule set
    put16(&mut buf, 10, 6);
    put16(&mut buf, 12, 16);
    put16(&mut buf, 14, 2); // rule 0: glyphCount 2, substCount 1, input[0] at 18, record at 20
    put16(&mut buf, 16, 1);
    put16(&mut buf, 24, 1); // rule 1: glyphCount 1, substCount 1, record at 28
    put16(&mut buf, 26, 1);
    put16(&mut buf, 32, 1);
    put16(&mut buf, 34, 1);
    let covered = be16(&buf, 36);
    let cache = gsub_cache();
    let ctx = ReadScope::new(&buf).read_dep::<ContextLookup<GSUB>>(&cache).unwrap();
    let ids: [u16; 2] = kani::any();
    let glyphs = [G(ids[0]), G(ids[1])];
    let mt = MatchType::from_lookup_flag(LookupFlag(0), None);
    let got = context_lookup_info::<GSUB, GSUB>(&ctx, ids[0], |mc| mc.matches(None, mt, &glyphs, 0)).unwrap();
    if ids[0] != covered {
        assert!(got.is_none());
    } else {
        let helper = got.unwrap();
        assert!(helper.lookup_array.len() == 1);
        let rec = if ids[1] == be16(&buf, 18) { 20 } else { 28 };
        assert!(helper.lookup_array[0] == (be16(&buf, rec), be16(&buf, rec + 2)), "records of the first matching rule");
        kani::cover!(rec == 20, "longer rule matched first");
        kani::cover!(rec == 28, "fell through to the second rule");
        std::mem::forget(helper);
    }
    std::mem::forget(ctx);
    std::mem::forget(cache);
}

/// Reverse chaining single substitution: a covered glyph whose neighbours are in the backtrack
/// and lookahead coverages is replaced by the substitute at its coverage index.
// @bound ReverseChainSingleSubst with a coverage of 2 glyphs, 2 substitutes, 1 backtrack and 1 lookahead coverage of 1 glyph each, every value; run of 3 glyphs with symbolic ids, position 1; no GDEF, lookup flag 0
#[kani::proof]
#[kani::unwind(8)]
#[kani::stub(allsorts::binary::read::ReadScope::read_cache, crate::util::stub_read_cache)]
#[kani::stub(std::collections::hash_map::RandomState::new, crate::util::stub_random_state)]
fn c04_reverse_chain_single_subst() {
    let mut buf: [u8; 38] = kani::any();
    put16(&mut buf, 0, 1);
    put16(&mut buf, 2, 18); // coverage
    put16(&mut buf, 4, 1);
    put16(&mut buf, 6, 26); // backtrack coverage
    put16(&mut buf, 8, 1);
    put16(&mut buf, 10, 32); // lookahead coverage
    put16(&mut buf, 12, 2); // substitutes at 14, 16
    put16(&mut buf, 18, 1);
    put16(&mut buf, 20, 2);
    let (g0, g1) = (be16(&buf, 22), be16(&buf, 24));
    kani::assume(g0 < g1);
    put16(&mut buf, 26, 1);
    put16(&mut buf, 28, 1);
    put16(&mut buf, 32, 1);
    put16(&mut buf, 34, 1);
    let (back, ahead) = (be16(&buf, 30), be16(&buf, 36));
    let cache = gsub_cache();
    let rc = ReadScope::new(&buf).read_dep::<ReverseChainSingleSubst>(&cache).unwrap();
    let ids: [u16; 3] = kani::any();
    let glyphs = [G(ids[0]), G(ids[1]), G(ids[2])];
    let mt = MatchType::from_lookup_flag(LookupFlag(0), None);
    let got = rc.apply_glyph(ids[1], |mc| mc.matches(None, mt, &glyphs, 1)).unwrap();
    let idx = if ids[1] == g0 { Some(0usize) } else if ids[1] == g1 { Some(1) } else { None };
    match idx {
        Some(i) if ids[0] == back && ids[2] == ahead => {
            assert!(got == Some(be16(&buf, 14 + 2 * i)), "substitute at the coverage index");
            kani::cover!(i == 1);
        }
        _ => assert!(got.is_none()),
    }
    std::mem::forget(rc);
    std::mem::forget(cache);
}
