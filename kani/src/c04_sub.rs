//! C04 (second module) - GSUB subtables parsed from bytes and their per-glyph lookups, with the
//! layout caches stubbed out of the formula (see `util::stub_read_cache`).
//!
//! @funcs SingleSubst::{read_dep, apply_glyph}, MultipleSubst::{read_dep, apply_glyph}, SequenceTable::read, AlternateSubst::{read_dep, apply_glyph}, AlternateSet::read, LigatureSubst::{read_dep, apply_glyph}, LigatureSet::read, Ligature::read, Coverage::read, layout::read_objects, LayoutTable::<GSUB>::read, layout::new_layout_cache
//! @stub ReadScope::read_cache -> the same read without memoisation (util::stub_read_cache); std RandomState::new -> constant state
//! @out the application loops in gsub.rs (which glyphs are visited, insertion and removal of glyphs, ligature component bookkeeping), lookup ordering, nested lookups, reverse chaining; subtables larger than stated

use crate::util::*;
use allsorts::binary::read::ReadScope;
use allsorts::layout::{
    new_layout_cache, AlternateSubst, LayoutCache, LayoutTable, LigatureSubst, MultipleSubst,
    SingleSubst, GSUB,
};

fn gsub_cache() -> LayoutCache<GSUB> {
    static HEADER: [u8; 10] = [0, 1, 0, 0, 0, 0, 0, 0, 0, 0];
    let table = ReadScope::new(&HEADER).read::<LayoutTable<GSUB>>().unwrap();
    new_layout_cache(table)
}

/// SingleSubst format 1 (add deltaGlyphID modulo 65536) and format 2 (substitute array indexed by
/// the coverage index).
// @bound SingleSubst format 1 or 2 (symbolic), coverage format 1 with 2 symbolic glyphs, every delta / substitute value, every query glyph
#[kani::proof]
#[kani::unwind(8)]
#[kani::stub(allsorts::binary::read::ReadScope::read_cache, crate::util::stub_read_cache)]
#[kani::stub(std::collections::hash_map::RandomState::new, crate::util::stub_random_state)]
fn c04_single_subst() {
    let mut buf: [u8; 20] = kani::any();
    let fmt: u16 = if kani::any() { 1 } else { 2 };
    put16(&mut buf, 0, fmt);
    put16(&mut buf, 2, 12); // coverage offset
    if fmt == 2 {
        put16(&mut buf, 4, 2); // glyphCount; substitutes at 6, 8
    }
    put16(&mut buf, 12, 1);
    put16(&mut buf, 14, 2);
    let (g0, g1) = (be16(&buf, 16), be16(&buf, 18));
    kani::assume(g0 < g1);
    let cache = gsub_cache();
    let st = ReadScope::new(&buf).read_dep::<SingleSubst>(&cache).unwrap();
    let q: u16 = kani::any();
    let got = st.apply_glyph(q).unwrap();
    let idx = if q == g0 { Some(0usize) } else if q == g1 { Some(1) } else { None };
    let want = match idx {
        None => None,
        Some(i) => Some(if fmt == 1 { q.wrapping_add(be16(&buf, 4)) } else { be16(&buf, 6 + 2 * i) }),
    };
    assert!(got == want);
    kani::cover!(fmt == 1 && idx == Some(1) && (q as u32 + be16(&buf, 4) as u32) > 0xFFFF, "delta wraps");
    kani::cover!(fmt == 2 && idx == Some(1));
    std::mem::forget(st);
    std::mem::forget(cache);
}

/// MultipleSubst: the sequence table of the glyph's coverage index; AlternateSubst: the alternate
/// set of the glyph's coverage index.
// @bound coverage format 1 with 2 glyphs; 2 sequence tables / alternate sets of 2 and 1 glyphs with every value; every query glyph
#[kani::proof]
#[kani::unwind(8)]
#[kani::stub(allsorts::binary::read::ReadScope::read_cache, crate::util::stub_read_cache)]
#[kani::stub(std::collections::hash_map::RandomState::new, crate::util::stub_random_state)]
fn c04_multiple_and_alternate_subst() {
    let mut buf: [u8; 28] = kani::any();
    put16(&mut buf, 0, 1);
    put16(&mut buf, 2, 20); // coverage
    put16(&mut buf, 4, 2); // count
    put16(&mut buf, 6, 10); // table 0: count 2, glyphs at 12, 14
    put16(&mut buf, 8, 16); // table 1: count 1, glyph at 18
    put16(&mut buf, 10, 2);
    put16(&mut buf, 16, 1);
    put16(&mut buf, 20, 1);
    put16(&mut buf, 22, 2);
    let (g0, g1) = (be16(&buf, 24), be16(&buf, 26));
    kani::assume(g0 < g1);
    let cache = gsub_cache();
    let q: u16 = kani::any();
    let ms = ReadScope::new(&buf).read_dep::<MultipleSubst>(&cache).unwrap();
    let al = ReadScope::new(&buf).read_dep::<AlternateSubst>(&cache).unwrap();
    let m = ms.apply_glyph(q).unwrap();
    let a = al.apply_glyph(q).unwrap();
    if q == g0 {
        let (m, a) = (m.unwrap(), a.unwrap());
        assert!(m.substitute_glyphs.len() == 2 && a.alternate_glyphs.len() == 2);
        assert!(m.substitute_glyphs[0] == be16(&buf, 12) && m.substitute_glyphs[1] == be16(&buf, 14));
        assert!(a.alternate_glyphs[0] == be16(&buf, 12) && a.alternate_glyphs[1] == be16(&buf, 14));
    } else if q == g1 {
        let (m, a) = (m.unwrap(), a.unwrap());
        assert!(m.substitute_glyphs.len() == 1 && a.alternate_glyphs.len() == 1);
        assert!(m.substitute_glyphs[0] == be16(&buf, 18) && a.alternate_glyphs[0] == be16(&buf, 18));
        kani::cover!(true, "second covered glyph");
    } else {
        assert!(m.is_none() && a.is_none());
    }
    std::mem::forget(ms);
    std::mem::forget(al);
    std::mem::forget(cache);
}

/// LigatureSubst: the ligature set of the FIRST glyph's coverage index; each ligature lists its
/// result and its remaining components (componentCount - 1 of them).
// @bound coverage format 1 with 2 glyphs; ligature set 0 with 2 ligatures (3 and 2 components), ligature set 1 with 1 ligature (2 components); every glyph value; every query glyph
#[kani::proof]
#[kani::unwind(8)]
#[kani::stub(allsorts::binary::read::ReadScope::read_cache, crate::util::stub_read_cache)]
#[kani::stub(std::collections::hash_map::RandomState::new, crate::util::stub_random_state)]
fn c04_ligature_subst() {
    let mut buf: [u8; 50] = kani::any();
    put16(&mut buf, 0, 1);
    put16(&mut buf, 2, 42); // coverage
    put16(&mut buf, 4, 2); // ligatureSetCount
    put16(&mut buf, 6, 10); // set 0
    put16(&mut buf, 8, 30); // set 1
    // set 0 at 10: count 2, offsets (from the set) 6 -> 16 and 14 -> 24
    put16(&mut buf, 10, 2);
    put16(&mut buf, 12, 6);
    put16(&mut buf, 14, 14);
    put16(&mut buf, 18, 3); // ligature at 16: glyph, componentCount 3, components at 20, 22
    put16(&mut buf, 26, 2); // ligature at 24: glyph, componentCount 2, component at 28
    // set 1 at 30: count 1, offset 4 -> 34
    put16(&mut buf, 30, 1);
    put16(&mut buf, 32, 4);
    put16(&mut buf, 36, 2); // ligature at 34: glyph, componentCount 2, component at 38
    put16(&mut buf, 42, 1);
    put16(&mut buf, 44, 2);
    let (g0, g1) = (be16(&buf, 46), be16(&buf, 48));
    kani::assume(g0 < g1);
    let cache = gsub_cache();
    let ls = ReadScope::new(&buf).read_dep::<LigatureSubst>(&cache).unwrap();
    let q: u16 = kani::any();
    let got = ls.apply_glyph(q).unwrap();
    if q == g0 {
        let set = got.unwrap();
        assert!(set.ligatures.len() == 2);
        assert!(set.ligatures[0].ligature_glyph == be16(&buf, 16));
        assert!(set.ligatures[0].component_glyphs.len() == 2);
        assert!(set.ligatures[0].component_glyphs[0] == be16(&buf, 20) && set.ligatures[0].component_glyphs[1] == be16(&buf, 22));
        assert!(set.ligatures[1].ligature_glyph == be16(&buf, 24));
        assert!(set.ligatures[1].component_glyphs.len() == 1 && set.ligatures[1].component_glyphs[0] == be16(&buf, 28));
    } else if q == g1 {
        let set = got.unwrap();
        assert!(set.ligatures.len() == 1);
        assert!(set.ligatures[0].ligature_glyph == be16(&buf, 34));
        assert!(set.ligatures[0].component_glyphs.len() == 1 && set.ligatures[0].component_glyphs[0] == be16(&buf, 38));
        kani::cover!(true, "second ligature set");
    } else {
        assert!(got.is_none());
    }
    std::mem::forget(ls);
    std::mem::forget(cache);
}
