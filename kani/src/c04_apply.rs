//! C04 (third module) - the per-glyph kernels GSUB lookup application is assembled from, through
//! hook H9 (`gsub::verif`), over subtables parsed from bytes (caches stubbed, see util.rs).
//!
//! @funcs gsub::singlesubst, gsub::singlesubst_would_apply, gsub::alternatesubst, gsub::alternatesubst_would_apply, gsub::ligaturesubst_would_apply, Ligature::matches, SingleSubst::{read_dep, apply_glyph}, AlternateSubst::{read_dep, apply_glyph}, LigatureSubst::{read_dep, apply_glyph}
//! @stub ReadScope::read_cache -> the same read without memoisation (util::stub_read_cache); std RandomState::new -> constant state
//! @out gsub_apply_lookup and apply_subst (lookup cache), gsub::multiplesubst (Vec<RawGlyph>::insert: CBMC cannot bound the insertion loop and reports no verdict), Ligature::apply (Vec<RawGlyph> surgery: out of memory), context and chaining context substitution, reverse chaining; runs longer than 3 glyphs

use crate::util::*;
use allsorts::binary::read::ReadScope;
use allsorts::context::{LookupFlag, MatchType};
use allsorts::gsub::verif as hook;
use allsorts::gsub::{GlyphOrigin, RawGlyph, RawGlyphFlags};
use allsorts::layout::{
    new_layout_cache, AlternateSubst, LayoutCache, LayoutTable, LigatureSubst, SingleSubst, GSUB,
};

fn gsub_cache() -> LayoutCache<GSUB> {
    static HEADER: [u8; 10] = [0, 1, 0, 0, 0, 0, 0, 0, 0, 0];
    let table = ReadScope::new(&HEADER).read::<LayoutTable<GSUB>>().unwrap();
    new_layout_cache(table)
}

fn glyph(g: u16) -> RawGlyph<()> {
    RawGlyph {
        unicodes: tinyvec::tiny_vec![],
        glyph_index: g,
        liga_component_pos: 0,
        glyph_origin: GlyphOrigin::Char('a'),
        flags: RawGlyphFlags::empty(),
        variation: None,
        extra_data: (),
    }
}

/// Single substitution of one glyph: a covered glyph gets the substitute and a Direct origin (and
/// the vertical-alternate flag under `vert`/`vrt2`); an uncovered glyph is untouched. With two
/// subtables the first one that covers the glyph wins.
// @bound 2 SingleSubst format 2 subtables with one covered glyph each, every glyph id and substitute; feature tag in {vert, vrt2, liga}
#[kani::proof]
#[kani::unwind(8)]
#[kani::stub(allsorts::binary::read::ReadScope::read_cache, crate::util::stub_read_cache)]
#[kani::stub(std::collections::hash_map::RandomState::new, crate::util::stub_random_state)]
fn c04_single_subst_application() {
    let mut buf: [u8; 28] = kani::any();
    let mut k = 0;
    while k < 2 {
        let at = 14 * k;
        put16(&mut buf, at, 2);
        put16(&mut buf, at + 2, 8);
        put16(&mut buf, at + 4, 1); // glyphCount, substitute at +6
        put16(&mut buf, at + 8, 1);
        put16(&mut buf, at + 10, 1); // coverage: one glyph at +12
        k += 1;
    }
    let cache = gsub_cache();
    let s0 = ReadScope::new(&buf[..14]).read_dep::<SingleSubst>(&cache).unwrap();
    let s1 = ReadScope::new(&buf[14..]).read_dep::<SingleSubst>(&cache).unwrap();
    let subtables = [s0, s1];
    let tag: u32 = match kani::any::<u8>() % 3 {
        0 => allsorts::tag::VERT,
        1 => allsorts::tag::VRT2,
        _ => allsorts::tag::LIGA,
    };
    let g: u16 = kani::any();
    let mut gl = glyph(g);
    hook::singlesubst(&subtables, tag, &mut gl).unwrap();
    let (c0, c1) = (be16(&buf, 12), be16(&buf, 26));
    if g == c0 || g == c1 {
        let want = if g == c0 { be16(&buf, 6) } else { be16(&buf, 20) };
        assert!(gl.glyph_index == want, "first covering subtable wins");
        assert!(gl.glyph_origin == GlyphOrigin::Direct);
        assert!(gl.flags.contains(RawGlyphFlags::IS_VERT_ALT) == (tag != allsorts::tag::LIGA));
        kani::cover!(g == c0 && g == c1 && be16(&buf, 6) != be16(&buf, 20), "both subtables cover the glyph");
    } else {
        assert!(gl.glyph_index == g && gl.glyph_origin == GlyphOrigin::Char('a') && gl.flags.is_empty());
    }
    std::mem::forget(subtables);
    std::mem::forget(cache);
}

/// Alternate substitution: the requested alternate of the covered glyph's set, or no change when
/// the set has fewer alternates.
// @bound AlternateSubst with 1 covered glyph and a set of 2 alternates; every glyph id; alternate index 0..3
#[kani::proof]
#[kani::unwind(8)]
#[kani::stub(allsorts::binary::read::ReadScope::read_cache, crate::util::stub_read_cache)]
#[kani::stub(std::collections::hash_map::RandomState::new, crate::util::stub_random_state)]
fn c04_alternate_subst_application() {
    let mut buf: [u8; 20] = kani::any();
    put16(&mut buf, 0, 1);
    put16(&mut buf, 2, 14); // coverage
    put16(&mut buf, 4, 1);
    put16(&mut buf, 6, 8); // alternate set at 8: count 2, glyphs at 10, 12
    put16(&mut buf, 8, 2);
    put16(&mut buf, 14, 1);
    put16(&mut buf, 16, 1);
    let covered = be16(&buf, 18);
    let cache = gsub_cache();
    let al = ReadScope::new(&buf).read_dep::<AlternateSubst>(&cache).unwrap();
    let subtables = [al];
    let g: u16 = kani::any();
    let alt: usize = kani::any();
    kani::assume(alt < 4);
    let mut gl = glyph(g);
    hook::alternatesubst(&subtables, alt, &mut gl).unwrap();
    if g == covered && alt < 2 {
        assert!(gl.glyph_index == be16(&buf, 10 + 2 * alt) && gl.glyph_origin == GlyphOrigin::Direct);
        kani::cover!(alt == 1);
    } else {
        assert!(gl.glyph_index == g && gl.glyph_origin == GlyphOrigin::Char('a'));
    }
    std::mem::forget(subtables);
    std::mem::forget(cache);
}

/// Ligature selection at position 0 of a run of 3: the FIRST ligature of the first glyph's set (in
/// font order) whose components match the following glyphs is chosen.
// @bound LigatureSubst with 1 covered glyph and a set of 2 ligatures (3 components, then 2 components), every glyph id; run of 3 glyphs with symbolic ids; no GDEF, lookup flag 0
#[kani::proof]
#[kani::unwind(8)]
#[kani::stub(allsorts::binary::read::ReadScope::read_cache, crate::util::stub_read_cache)]
#[kani::stub(std::collections::hash_map::RandomState::new, crate::util::stub_random_state)]
fn c04_ligature_selection() {
    let mut buf: [u8; 36] = kani::any();
    put16(&mut buf, 0, 1);
    put16(&mut buf, 2, 30); // coverage
    put16(&mut buf, 4, 1);
    put16(&mut buf, 6, 8); // ligature set at 8: count 2, offsets 6 -> 14 and 14 -> 22
    put16(&mut buf, 8, 2);
    put16(&mut buf, 10, 6);
    put16(&mut buf, 12, 14);
    put16(&mut buf, 16, 3); // ligature at 14: glyph, componentCount 3, components at 18, 20
    put16(&mut buf, 24, 2); // ligature at 22: glyph, componentCount 2, component at 26
    put16(&mut buf, 30, 1);
    put16(&mut buf, 32, 1);
    let covered = be16(&buf, 34);
    let cache = gsub_cache();
    let ls = ReadScope::new(&buf).read_dep::<LigatureSubst>(&cache).unwrap();
    let subtables = [ls];
    let ids: [u16; 3] = kani::any();
    let glyphs = [glyph(ids[0]), glyph(ids[1]), glyph(ids[2])];
    let mt = MatchType::from_lookup_flag(LookupFlag(0), None);
    let got = hook::ligature_would_apply(None, &subtables, mt, 0, &glyphs).unwrap();
    let want = if ids[0] != covered {
        None
    } else if ids[1] == be16(&buf, 18) && ids[2] == be16(&buf, 20) {
        Some(be16(&buf, 14))
    } else if ids[1] == be16(&buf, 26) {
        Some(be16(&buf, 22))
    } else {
        None
    };
    assert!(got == want);
    kani::cover!(want == Some(be16(&buf, 22)) && be16(&buf, 22) != be16(&buf, 14), "shorter ligature chosen");
    kani::cover!(want == Some(be16(&buf, 14)) && ids[1] == be16(&buf, 26), "both match: the first in font order wins");
    std::mem::forget(glyphs);
    std::mem::forget(subtables);
    std::mem::forget(cache);
}

/// After a context rule has matched, the lookup moves on past the WHOLE matched input sequence:
/// the span returned for a rule with no nested lookups is the distance from the first to the
/// last matched input glyph, counting the glyphs the lookup flag skipped in between.
// @bound run of 4 glyphs with ids in 0..=3 and symbolic GDEF classes, lookup flag any combination of ignore-base / ignore-ligature / ignore-mark; a context with an input sequence of 2 glyphs (symbolic second id) that matches at position 0; no nested lookup records
#[kani::proof]
#[kani::unwind(8)]
#[kani::stub(allsorts::binary::read::ReadScope::read_cache, crate::util::stub_read_cache)]
#[kani::stub(std::collections::hash_map::RandomState::new, crate::util::stub_random_state)]
fn c04_context_match_span() {
    use allsorts::context::{GlyphTable, MatchContext};
    use allsorts::layout::{ClassDef, GDEFTable, LookupList};
    let mut cbuf = [0u8; 14];
    put16(&mut cbuf, 0, 1);
    put16(&mut cbuf, 4, 4);
    let class: [u16; 4] = kani::any();
    let mut k = 0;
    while k < 4 {
        kani::assume(class[k] <= 3);
        put16(&mut cbuf, 6 + 2 * k, class[k]);
        k += 1;
    }
    let gdef = GDEFTable {
        opt_glyph_classdef: Some(ReadScope::new(&cbuf).read::<ClassDef>().unwrap()),
        opt_mark_attach_classdef: None,
        opt_mark_glyph_sets: None,
        opt_item_variation_store: None,
    };
    let flag: u16 = kani::any();
    kani::assume(flag & !0x000E == 0);
    let skipped = |g: u16| match class[g as usize] {
        1 => flag & 0x0002 != 0,
        2 => flag & 0x0004 != 0,
        3 => flag & 0x0008 != 0,
        _ => false,
    };
    let ids: [u16; 4] = kani::any();
    kani::assume(ids[0] <= 3 && ids[1] <= 3 && ids[2] <= 3 && ids[3] <= 3);
    let mut glyphs = vec![glyph(ids[0]), glyph(ids[1]), glyph(ids[2]), glyph(ids[3])];
    let second: [u16; 1] = kani::any();
    let mt = MatchType::from_lookup_flag(LookupFlag(flag), None);
    let none: [u16; 0] = [];
    let make = || MatchContext {
        backtrack_table: GlyphTable::ById(&none),
        input_table: GlyphTable::ById(&second),
        lookahead_table: GlyphTable::ById(&none),
    };
    // the caller only gets here for a glyph the lookup visits and a rule that matched there
    kani::assume(!skipped(ids[0]));
    kani::assume(make().matches(Some(&gdef), mt, &glyphs, 0));
    static LIST: [u8; 2] = [0, 0];
    let lookup_list = ReadScope::new(&LIST).read::<LookupList<GSUB>>().unwrap();
    let cache = gsub_cache();
    let got = hook::apply_subst_context(&cache, &lookup_list, Some(&gdef), mt, make(), &[], 0, &mut glyphs).unwrap();
    // the second input glyph is the first glyph after position 0 that the flag does not skip
    let mut j = 1;
    while j < 4 && skipped(ids[j]) {
        j += 1;
    }
    assert!(j < 4 && ids[j] == second[0]);
    assert!(got == Some((j + 1, 0)), "span of the matched input sequence");
    kani::cover!(j == 3, "two skipped glyphs inside the match");
    kani::cover!(j == 1, "adjacent");
    std::mem::forget(glyphs);
    std::mem::forget(lookup_list);
    std::mem::forget(gdef);
    std::mem::forget(cache);
}
