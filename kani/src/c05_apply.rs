//! C05 (third module) - the kernels GPOS lookup application is assembled from, through hook H8
//! (`gpos::verif`): which glyph pairs a mark-to-base / mark-to-mark lookup visits, and what a
//! cursive or pair-adjustment subtable does to the pair it is applied to.
//!
//! @funcs gpos::forall_base_mark_glyph_pairs, gpos::forall_mark_mark_glyph_pairs, gpos::cursivepos, gpos::gpos_lookup_cursivepos, gpos::pairpos, gpos::gpos_lookup_pairpos, gpos::markligpos, gpos::gpos_lookup_markligpos, MarkLigPos::{read_dep, apply}, LigatureArray::read_dep, LigatureAttach::read_dep, ComponentRecord::read_dep, MarkArray::read, Adjust::apply, Placement::combine_distance, CursivePos::{read_dep, apply}, PairPos::{read_dep, apply}
//! @stub ReadScope::read_cache -> the same read without memoisation (util::stub_read_cache); std RandomState::new -> constant state
//! @out gpos::apply / gpos_apply_lookup (lookup cache), the lookup-flag filtering of pairs (find_first / find_next are decided under C04), context positioning, glyph_positions; runs longer than 4 (mark-to-base) / 3 (mark-to-mark) glyphs

use crate::util::*;
use allsorts::binary::read::ReadScope;
use allsorts::context::LookupFlag;
use allsorts::gpos::verif as hook;
use allsorts::gpos::{Info, Placement};
use allsorts::gsub::{GlyphOrigin, RawGlyph, RawGlyphFlags};
use allsorts::layout::{
    new_layout_cache, CursivePos, LayoutCache, LayoutTable, MarkLigPos, PairPos, GPOS,
};

fn gpos_cache() -> LayoutCache<GPOS> {
    static HEADER: [u8; 10] = [0, 1, 0, 0, 0, 0, 0, 0, 0, 0];
    let table = ReadScope::new(&HEADER).read::<LayoutTable<GPOS>>().unwrap();
    new_layout_cache(table)
}

fn glyph(g: u16, component: u16, ligature: bool) -> RawGlyph<()> {
    RawGlyph {
        unicodes: tinyvec::tiny_vec![],
        glyph_index: g,
        liga_component_pos: component,
        glyph_origin: GlyphOrigin::Direct,
        flags: if ligature { RawGlyphFlags::LIGATURE } else { RawGlyphFlags::empty() },
        variation: None,
        extra_data: (),
    }
}

/// Mark-to-base lookups offer every (base, following glyph) pair up to and including the next
/// non-mark glyph: a mark is only ever offered the nearest preceding non-mark glyph as its base.
// @bound runs of 4 glyphs with every mark / non-mark pattern
#[kani::proof]
#[kani::unwind(8)]
fn c05_base_mark_pairs() {
    let marks: [bool; 4] = kani::any();
    let mut infos = [
        hook::info(glyph(1, 0, false), marks[0]),
        hook::info(glyph(2, 0, false), marks[1]),
        hook::info(glyph(3, 0, false), marks[2]),
        hook::info(glyph(4, 0, false), marks[3]),
    ];
    let (got, n) = hook::base_mark_glyph_pairs(&mut infos);
    // reference: (i, j), i < j, i not a mark, every glyph strictly between them a mark
    let mut k = 0;
    let mut i = 0;
    while i < 4 {
        let mut j = i + 1;
        while j < 4 {
            let mut between_marks = true;
            let mut m = i + 1;
            while m < j {
                between_marks = between_marks && marks[m];
                m += 1;
            }
            if !marks[i] && between_marks {
                assert!(k < n && got[k] == (i, j), "pair offered in order");
                k += 1;
            }
            j += 1;
        }
        i += 1;
    }
    assert!(k == n, "no other pair is offered");
    kani::cover!(n == 3 && !marks[0] && marks[1] && marks[2] && marks[3], "one base, three marks");
    kani::cover!(n == 0);
    std::mem::forget(infos);
}

/// Mark-to-mark lookups offer (mark, later mark) pairs within one unbroken run of marks, and only
/// when both belong to the same ligature component or one of them is itself a ligature.
fn mark_mark_pairs(any_ligature: bool) {
    let marks: [bool; 3] = kani::any();
    let comp: [u16; 3] = kani::any();
    let lig: [bool; 3] = if any_ligature { kani::any() } else { [false; 3] };
    kani::assume(comp[0] < 2 && comp[1] < 2 && comp[2] < 2);
    let mut infos = [
        hook::info(glyph(1, comp[0], lig[0]), marks[0]),
        hook::info(glyph(2, comp[1], lig[1]), marks[1]),
        hook::info(glyph(3, comp[2], lig[2]), marks[2]),
    ];
    let (got, n) = hook::mark_mark_glyph_pairs(&mut infos);
    let mut k = 0;
    let mut i = 0;
    while i < 3 {
        let mut j = i + 1;
        while j < 3 {
            let mut run = marks[i];
            let mut m = i + 1;
            while m <= j {
                run = run && marks[m];
                m += 1;
            }
            if run && (comp[i] == comp[j] || lig[i] || lig[j]) {
                assert!(k < n && got[k] == (i, j), "pair offered in order");
                k += 1;
            }
            j += 1;
        }
        i += 1;
    }
    assert!(k == n, "no other pair is offered");
    kani::cover!(n == 3);
    kani::cover!(n == 0 && marks[0] && marks[1], "different components, no ligature");
    std::mem::forget(infos);
}

/// Two glyphs: the pair is offered exactly when both are marks and they share a ligature
/// component or one of them is a ligature.
// @bound runs of 2 glyphs with every mark / non-mark pattern, ligature component numbers in 0..1 and ligature flags symbolic
#[kani::proof]
#[kani::unwind(6)]
fn c05_mark_mark_pair_of_two() {
    let marks: [bool; 2] = kani::any();
    let comp: [u16; 2] = kani::any();
    let lig: [bool; 2] = kani::any();
    kani::assume(comp[0] < 2 && comp[1] < 2);
    let mut infos = [
        hook::info(glyph(1, comp[0], lig[0]), marks[0]),
        hook::info(glyph(2, comp[1], lig[1]), marks[1]),
    ];
    let (got, n) = hook::mark_mark_glyph_pairs(&mut infos);
    if marks[0] && marks[1] && (comp[0] == comp[1] || lig[0] || lig[1]) {
        assert!(n == 1 && got[0] == (0, 1), "the pair is offered");
        kani::cover!(comp[0] != comp[1], "different components, one is a ligature");
    } else {
        assert!(n == 0, "no pair is offered");
        kani::cover!(marks[0] && marks[1], "two marks on different components");
    }
    std::mem::forget(infos);
}

// (with unwind(6) the three nested loops of forall_mark_mark_glyph_pairs gave no answer in 600 s, in
// the third and in the fourth session; 4 is enough for 3 glyphs and the unwinding assertions check it)
// @bound runs of 3 glyphs with every mark / non-mark pattern, ligature component numbers in 0..1, no ligature glyphs
#[kani::proof]
#[kani::unwind(4)]
fn c05_mark_mark_pairs() {
    mark_mark_pairs(false);
}

// @tier thorough
// @bound runs of 3 glyphs with every mark / non-mark pattern, ligature component numbers in 0..1 and ligature flags symbolic
#[kani::proof]
#[kani::unwind(4)]
fn c05_mark_mark_pairs_with_ligatures() {
    mark_mark_pairs(true);
}

/// Cursive attachment of a pair: the FIRST glyph is placed relative to the second (exit glyph
/// index, RIGHT_TO_LEFT flag of the lookup, entry anchor of the second glyph, exit anchor of the
/// first); nothing else changes.
// @bound CursivePos with 2 covered glyphs and 4 present format-1 anchors with symbolic coordinates; run of 3 glyphs with symbolic ids; pair (0,1) or (1,2); every lookup flag word
#[kani::proof]
#[kani::unwind(10)]
#[kani::stub(allsorts::binary::read::ReadScope::read_cache, crate::util::stub_read_cache)]
#[kani::stub(std::collections::hash_map::RandomState::new, crate::util::stub_random_state)]
fn c05_cursive_application() {
    let mut buf: [u8; 46] = kani::any();
    put16(&mut buf, 0, 1);
    put16(&mut buf, 2, 14);
    put16(&mut buf, 4, 2);
    let mut k = 0;
    while k < 4 {
        put16(&mut buf, 6 + 2 * k, (22 + 6 * k) as u16);
        put16(&mut buf, 22 + 6 * k, 1);
        k += 1;
    }
    put16(&mut buf, 14, 1);
    put16(&mut buf, 16, 2);
    let (g0, g1) = (be16(&buf, 18), be16(&buf, 20));
    kani::assume(g0 < g1);
    let cache = gpos_cache();
    let cp = ReadScope::new(&buf).read_dep::<CursivePos>(&cache).unwrap();
    let subtables = [cp];
    let ids: [u16; 3] = kani::any();
    let mut infos = [
        hook::info(glyph(ids[0], 0, false), false),
        hook::info(glyph(ids[1], 0, false), false),
        hook::info(glyph(ids[2], 0, false), false),
    ];
    let first: usize = if kani::any() { 0 } else { 1 };
    let flag: u16 = kani::any();
    hook::cursivepos(&subtables, first, first + 1, LookupFlag(flag), &mut infos).unwrap();
    let idx = |g: u16| if g == g0 { Some(0usize) } else if g == g1 { Some(1) } else { None };
    let anchor = |at: usize| (be16(&buf, at + 2) as i16, be16(&buf, at + 4) as i16);
    match (idx(ids[first]), idx(ids[first + 1])) {
        (Some(a), Some(b)) => {
            let exit = anchor(22 + 6 * (2 * a + 1));
            let entry = anchor(22 + 6 * (2 * b));
            match infos[first].placement {
                Placement::CursiveAnchor(target, rtl, second_entry, first_exit) => {
                    assert!(target == first + 1, "attached to the second glyph of the pair");
                    assert!(rtl == (flag & 1 != 0), "RIGHT_TO_LEFT is bit 0 of the lookup flag");
                    assert!((second_entry.x, second_entry.y) == entry, "entry anchor of the second glyph");
                    assert!((first_exit.x, first_exit.y) == exit, "exit anchor of the first glyph");
                }
                _ => assert!(false, "covered pair must be connected"),
            }
            kani::cover!(a == 1 && b == 0);
        }
        _ => assert!(infos[first].placement == Placement::None),
    }
    assert!(infos[first + 1].placement == Placement::None, "the second glyph is not moved");
    assert!(infos[2 - 2 * first].placement == Placement::None, "glyphs outside the pair are untouched");
    std::mem::forget(infos);
    std::mem::forget(subtables);
    std::mem::forget(cache);
}

/// Pair adjustment of a pair: value record 1 goes to the first glyph, value record 2 to the second:
/// xAdvance accumulates in `kerning`, placements in a `Distance`.
// @bound PairPos format 1 with one pair set of one pair, valueFormat1 0x0004 (xAdvance), valueFormat2 0x0003 (xPlacement, yPlacement), every value; run of 2 glyphs with symbolic ids
#[kani::proof]
#[kani::unwind(10)]
#[kani::stub(allsorts::binary::read::ReadScope::read_cache, crate::util::stub_read_cache)]
#[kani::stub(std::collections::hash_map::RandomState::new, crate::util::stub_random_state)]
fn c05_pair_application() {
    let mut buf: [u8; 28] = kani::any();
    put16(&mut buf, 0, 1);
    put16(&mut buf, 2, 22); // coverage
    put16(&mut buf, 4, 0x0004);
    put16(&mut buf, 6, 0x0003);
    put16(&mut buf, 8, 1);
    put16(&mut buf, 10, 12); // pair set at 12: count 1, record at 14: second glyph, xAdvance, xPlacement, yPlacement
    put16(&mut buf, 12, 1);
    put16(&mut buf, 22, 1);
    put16(&mut buf, 24, 1);
    let g0 = be16(&buf, 26);
    let second = be16(&buf, 14);
    let (adv, xp, yp) = (be16(&buf, 16) as i16, be16(&buf, 18) as i16, be16(&buf, 20) as i16);
    let cache = gpos_cache();
    let pp = ReadScope::new(&buf).read_dep::<PairPos>(&cache).unwrap();
    let subtables = [pp];
    let ids: [u16; 2] = kani::any();
    let mut infos = [hook::info(glyph(ids[0], 0, false), false), hook::info(glyph(ids[1], 0, false), false)];
    hook::pairpos(&subtables, 0, 1, &mut infos).unwrap();
    if ids[0] == g0 && ids[1] == second {
        assert!(infos[0].kerning == adv, "xAdvance of value record 1 is the first glyph's kerning");
        assert!(infos[0].placement == Placement::None);
        assert!(infos[1].kerning == 0);
        if xp == 0 && yp == 0 {
            assert!(infos[1].placement == Placement::None);
        } else {
            assert!(infos[1].placement == Placement::Distance(xp as i32, yp as i32), "placement of value record 2 moves the second glyph");
        }
        kani::cover!(adv < 0 && yp > 0);
    } else {
        assert!(infos[0].kerning == 0 && infos[1].kerning == 0);
        assert!(infos[0].placement == Placement::None && infos[1].placement == Placement::None);
    }
    std::mem::forget(infos);
    std::mem::forget(subtables);
    std::mem::forget(cache);
}

/// Mark-to-ligature attachment of a pair: the MARK's ligature component number selects the
/// component record of the ligature; the mark is anchored to that component's anchor for its class
/// and flagged as a mark; a component number beyond the ligature's components attaches nothing.
// @bound MarkLigPos with 1 mark glyph (1 mark class), 1 ligature glyph with 2 components, format-1 anchors with symbolic coordinates; pair of (ligature, mark) with symbolic glyph ids and symbolic component numbers 0..3 on BOTH glyphs
#[kani::proof]
#[kani::unwind(10)]
#[kani::stub(allsorts::binary::read::ReadScope::read_cache, crate::util::stub_read_cache)]
#[kani::stub(std::collections::hash_map::RandomState::new, crate::util::stub_random_state)]
fn c05_mark_ligature_application() {
    let mut buf: [u8; 60] = kani::any();
    put16(&mut buf, 0, 1);
    put16(&mut buf, 2, 12); // mark coverage
    put16(&mut buf, 4, 18); // ligature coverage
    put16(&mut buf, 6, 1); // markClassCount
    put16(&mut buf, 8, 24); // mark array
    put16(&mut buf, 10, 36); // ligature array
    put16(&mut buf, 12, 1);
    put16(&mut buf, 14, 1);
    let mark = be16(&buf, 16);
    put16(&mut buf, 18, 1);
    put16(&mut buf, 20, 1);
    let liga = be16(&buf, 22);
    // mark array at 24: count 1, record (class 0, anchor offset 6) at 26; anchor at 30
    put16(&mut buf, 24, 1);
    put16(&mut buf, 26, 0);
    put16(&mut buf, 28, 6);
    put16(&mut buf, 30, 1);
    // ligature array at 36: count 1, offset 4 -> ligature attach at 40: componentCount 2,
    // component records (1 anchor offset each, from the ligature attach) at 42, 44; anchors at 46, 52
    put16(&mut buf, 36, 1);
    put16(&mut buf, 38, 4);
    put16(&mut buf, 40, 2);
    put16(&mut buf, 42, 6);
    put16(&mut buf, 44, 12);
    put16(&mut buf, 46, 1);
    put16(&mut buf, 52, 1);
    let cache = gpos_cache();
    let ml = ReadScope::new(&buf[..58]).read_dep::<MarkLigPos>(&cache).unwrap();
    let subtables = [ml];
    let ids: [u16; 2] = kani::any();
    let comps: [u16; 2] = kani::any();
    kani::assume(comps[0] < 4 && comps[1] < 4);
    let mut infos = [
        hook::info(glyph(ids[0], comps[0], true), false),
        hook::info(glyph(ids[1], comps[1], false), false),
    ];
    hook::markligpos(&subtables, 0, 1, &mut infos).unwrap();
    if ids[0] == liga && ids[1] == mark && comps[1] < 2 {
        let at = 46 + 6 * comps[1] as usize;
        match infos[1].placement {
            Placement::MarkAnchor(base, liga_anchor, mark_anchor) => {
                assert!(base == 0);
                assert!(liga_anchor.x == be16(&buf, at + 2) as i16 && liga_anchor.y == be16(&buf, at + 4) as i16, "anchor of the component the MARK belongs to");
                assert!(mark_anchor.x == be16(&buf, 32) as i16 && mark_anchor.y == be16(&buf, 34) as i16);
            }
            _ => assert!(false, "covered pair must be attached"),
        }
        assert!(hook::is_mark(&infos[1]));
        kani::cover!(comps[1] == 1 && comps[0] == 0, "mark on the second component");
    } else {
        assert!(infos[1].placement == Placement::None, "nothing attached");
    }
    assert!(infos[0].placement == Placement::None);
    kani::cover!(comps[1] >= 2 && ids[0] == liga && ids[1] == mark, "component number beyond the ligature");
    std::mem::forget(infos);
    std::mem::forget(subtables);
    std::mem::forget(cache);
}
