//! Small helpers shared by the harness modules. Reference arithmetic only -
//! nothing here is taken from allsorts.

/// Big-endian value of `n` bytes of `buf` starting at `at` (reference decoder).
pub fn be(buf: &[u8], at: usize, n: usize) -> u64 {
    let mut v = 0u64;
    let mut k = 0;
    while k < n {
        v = (v << 8) | buf[at + k] as u64;
        k += 1;
    }
    v
}

pub fn be16(buf: &[u8], at: usize) -> u16 {
    ((buf[at] as u16) << 8) | buf[at + 1] as u16
}

pub fn be32(buf: &[u8], at: usize) -> u32 {
    ((buf[at] as u32) << 24)
        | ((buf[at + 1] as u32) << 16)
        | ((buf[at + 2] as u32) << 8)
        | buf[at + 3] as u32
}

pub fn put16(buf: &mut [u8], at: usize, v: u16) {
    buf[at] = (v >> 8) as u8;
    buf[at + 1] = v as u8;
}

pub fn put32(buf: &mut [u8], at: usize, v: u32) {
    buf[at] = (v >> 24) as u8;
    buf[at + 1] = (v >> 16) as u8;
    buf[at + 2] = (v >> 8) as u8;
    buf[at + 3] = v as u8;
}

/// Symbolic length `<= max`.
pub fn any_len(max: usize) -> usize {
    let len: usize = kani::any();
    kani::assume(len <= max);
    len
}

// ---------------------------------------------------------------------------
// A FontTableProvider that serves five small tables (cmap format 4 mapping U+25CC, head,
// maxp with 8 glyphs, hhea with 2 hMetrics, hmtx) and optionally claims a glyf table, so
// that Font::new runs the real loading code without a file parsing pipeline (C02, C03).
// ---------------------------------------------------------------------------
use allsorts::error::ParseError;
use allsorts::tables::FontTableProvider;
use std::borrow::Cow;

const CMAP: u32 = 0x636D_6170;
const HEAD: u32 = 0x6865_6164;
const MAXP: u32 = 0x6D61_7870;
const HHEA: u32 = 0x6868_6561;
const HMTX: u32 = 0x686D_7478;
const GLYF: u32 = 0x676C_7966;
const VHEA: u32 = 0x7668_6561;

pub struct Provider {
    pub cmap: [u8; 12 + 32],
    head: [u8; 54],
    maxp: [u8; 6],
    hhea: [u8; 36],
    hmtx: [u8; 8],
    pub has_glyf: bool,
    /// serve a 4-byte (unparsable) vhea table
    pub corrupt_vhea: bool,
}

impl FontTableProvider for Provider {
    fn table_data(&self, tag: u32) -> Result<Option<Cow<'_, [u8]>>, ParseError> {
        Ok(match tag {
            CMAP => Some(Cow::Borrowed(&self.cmap[..])),
            HEAD => Some(Cow::Borrowed(&self.head[..])),
            MAXP => Some(Cow::Borrowed(&self.maxp[..])),
            HHEA => Some(Cow::Borrowed(&self.hhea[..])),
            HMTX => Some(Cow::Borrowed(&self.hmtx[..])),
            VHEA if self.corrupt_vhea => Some(Cow::Borrowed(&self.hmtx[..4])),
            _ => None,
        })
    }

    fn has_table(&self, tag: u32) -> bool {
        matches!(tag, CMAP | HEAD | MAXP | HHEA | HMTX) || (tag == GLYF && self.has_glyf)
    }

    fn table_tags(&self) -> Option<Vec<u32>> {
        None
    }
}

pub fn provider(has_glyf: bool, dotted_circle_gid: u16) -> Provider {
    // cmap: one (3,1) encoding record -> format 4 with segments [0x25CC..0x25CC], [0xFFFF..0xFFFF]
    let mut cmap = [0u8; 44];
    put16(&mut cmap, 2, 1);
    put16(&mut cmap, 4, 3);
    put16(&mut cmap, 6, 1);
    put32(&mut cmap, 8, 12);
    let s = 12;
    put16(&mut cmap, s, 4);
    put16(&mut cmap, s + 2, 32);
    put16(&mut cmap, s + 6, 4); // segCountX2
    put16(&mut cmap, s + 14, 0x25CC); // endCode[0]
    put16(&mut cmap, s + 16, 0xFFFF);
    put16(&mut cmap, s + 20, 0x25CC); // startCode[0]
    put16(&mut cmap, s + 22, 0xFFFF);
    put16(&mut cmap, s + 24, dotted_circle_gid.wrapping_sub(0x25CC)); // idDelta[0]
    put16(&mut cmap, s + 26, 1);
    let mut head = [0u8; 54];
    put16(&mut head, 0, 1);
    put32(&mut head, 12, 0x5F0F_3CF5);
    put16(&mut head, 18, 1000);
    let mut maxp = [0u8; 6];
    put32(&mut maxp, 0, 0x0000_5000);
    put16(&mut maxp, 4, 8);
    let mut hhea = [0u8; 36];
    put16(&mut hhea, 0, 1);
    put16(&mut hhea, 34, 2);
    let mut hmtx = [0u8; 8];
    put16(&mut hmtx, 0, 500);
    put16(&mut hmtx, 4, 600);
    Provider { cmap, head, maxp, hhea, hmtx, has_glyf, corrupt_vhea: false }
}


// ---------------------------------------------------------------------------
// Stubs that take the layout caches out of the formula (used with `#[kani::stub]`, `-Z stubbing`).
// `ReadScope::read_cache` memoises `self.read::<T>()` in a std HashMap keyed by the scope's base
// offset; CBMC does not get through std's HashMap (DESIGN.md section 4). The stub performs the
// same read without memoising it - the cache is semantically transparent (that transparency is
// what property C03 states and is outside these harnesses). `RandomState::new` (called by
// `HashMap::new` when the cache object is built) is replaced by a constant state.
// ---------------------------------------------------------------------------
use allsorts::binary::read::{ReadBinaryDep, ReadCache, ReadScope};
use std::rc::Rc;

pub fn stub_read_cache<'a, T>(
    this: &ReadScope<'a>,
    _cache: &mut ReadCache<T::HostType<'a>>,
) -> Result<Rc<T::HostType<'a>>, ParseError>
where
    T: 'static + ReadBinaryDep<Args<'a> = ()>,
{
    Ok(Rc::new(this.read_dep::<T>(())?))
}

pub fn stub_random_state() -> std::collections::hash_map::RandomState {
    unsafe { std::mem::transmute::<[u64; 2], std::collections::hash_map::RandomState>([1, 2]) }
}
