//! Small helpers shared by the harness modules. Reference arithmetic only -
//! nothing here is taken from allsorts.

/// Big-endian value of `n` bytes of `buf` starting at `at` (reference decoder).
pub fn be(buf: &[u8], at: usize, n: usize) -> u64 {
    let mut v = 0u64;
    let mut k = 0;
    while k < n {
        v = (v << 8) | buf[at + k] as u64;
        k += 1;
    }
    v
}

pub fn be16(buf: &[u8], at: usize) -> u16 {
    ((buf[at] as u16) << 8) | buf[at + 1] as u16
}

pub fn be32(buf: &[u8], at: usize) -> u32 {
    ((buf[at] as u32) << 24)
        | ((buf[at + 1] as u32) << 16)
        | ((buf[at + 2] as u32) << 8)
        | buf[at + 3] as u32
}

pub fn put16(buf: &mut [u8], at: usize, v: u16) {
    buf[at] = (v >> 8) as u8;
    buf[at + 1] = v as u8;
}

pub fn put32(buf: &mut [u8], at: usize, v: u32) {
    buf[at] = (v >> 24) as u8;
    buf[at + 1] = (v >> 16) as u8;
    buf[at + 2] = (v >> 8) as u8;
    buf[at + 3] = v as u8;
}

/// Symbolic length `<= max`.
pub fn any_len(max: usize) -> usize {
    let len: usize = kani::any();
    kani::assume(len <= max);
    len
}
