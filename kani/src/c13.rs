//! C13 - user coordinates normalise per fvar and avar (Kani part; the division-heavy
//! default normalisation kernel is decided by Engine B, lib/smt_engine.py build_c13).
//!
//! @funcs FvarTable::read, FvarTable::normalize, fvar::default_normalize, AvarTable::read, AvarTable::segment_maps, SegmentMap::read, SegmentMap::normalize, Fixed::{add,sub,mul,div,from}, F2Dot14::from(Fixed), OwnedTuple
//! @out avar maps with more than 4 records, more than 2 axes, monotonicity of the avar step (two 64-bit divisions per call: no answer in 7 min), avar version 2 (not implemented by the crate)

use crate::util::*;
use allsorts::binary::read::ReadScope;
use allsorts::error::ParseError;
use allsorts::tables::variable_fonts::avar::{AvarTable, SegmentMap};
use allsorts::tables::variable_fonts::fvar::FvarTable;
use allsorts::tables::{F2Dot14, Fixed};

/// fvar table with `n` axes (20-byte axis records, no instances) into `buf`.
fn fvar_header(buf: &mut [u8], n: u16) {
    put16(buf, 0, 1); // major
    put16(buf, 2, 0); // minor
    put16(buf, 4, 16); // axesArrayOffset
    put16(buf, 6, 2); // reserved
    put16(buf, 8, n); // axisCount
    put16(buf, 10, 20); // axisSize
    put16(buf, 12, 0); // instanceCount
    put16(buf, 14, 0); // instanceSize
}

fn put_axis(buf: &mut [u8], k: usize, min: i32, def: i32, max: i32) {
    let at = 16 + 20 * k;
    put32(buf, at, 0x7767_6874);
    put32(buf, at + 4, min as u32);
    put32(buf, at + 8, def as u32);
    put32(buf, at + 12, max as u32);
    put16(buf, at + 16, 0);
    put16(buf, at + 18, 256);
}

/// A user tuple whose length differs from the axis count is rejected.
// @bound fvar with 1 concrete axis (100, 400, 900), user tuples of length 0, 1 and 2 with symbolic values
#[kani::proof]
#[kani::unwind(7)]
fn c13_tuple_length_is_checked() {
    let mut buf = [0u8; 36];
    fvar_header(&mut buf, 1);
    let (min, def, max) = (100 << 16, 400 << 16, 900 << 16);
    put_axis(&mut buf, 0, min, def, max);
    let fvar = ReadScope::new(&buf).read::<FvarTable<'_>>().unwrap();
    assert!(fvar.axis_count() == 1);
    let a = Fixed::from_raw(kani::any());
    let b = Fixed::from_raw(kani::any());
    let none: [Fixed; 0] = [];
    assert!(matches!(fvar.normalize(none.iter().copied(), None), Err(ParseError::BadValue)));
    let two = [a, b];
    assert!(matches!(fvar.normalize(two.iter().copied(), None), Err(ParseError::BadValue)));
    let one = [def_fixed(def)];
    match fvar.normalize(one.iter().copied(), None) {
        Ok(t) => {
            assert!(t.len() == 1);
            assert!(t[0].raw_value() == 0); // the default always normalises to 0
            kani::cover!(true, "one axis normalised");
            std::mem::forget(t);
        }
        Err(_) => assert!(false),
    }
}

fn def_fixed(v: i32) -> Fixed {
    Fixed::from_raw(v)
}

/// Through the public API on a concrete weight axis (100, 400, 900): endpoints,
/// clamping, sign and range for EVERY 16.16 user value.
// @bound fvar with the concrete axis min=100 default=400 max=900, user coordinate any i32 raw 16.16 value
#[kani::proof]
#[kani::unwind(7)]
fn c13_normalize_concrete_axis() {
    let mut buf = [0u8; 36];
    fvar_header(&mut buf, 1);
    put_axis(&mut buf, 0, 100 << 16, 400 << 16, 900 << 16);
    let fvar = ReadScope::new(&buf).read::<FvarTable<'_>>().unwrap();
    let c: i32 = kani::any();
    let user = [Fixed::from_raw(c)];
    let t = fvar.normalize(user.iter().copied(), None).unwrap();
    let v = t[0].raw_value();
    assert!(v >= -16384 && v <= 16384);
    if c <= 100 << 16 {
        assert!(v == -16384);
    }
    if c >= 900 << 16 {
        assert!(v == 16384);
    }
    if c == 400 << 16 {
        assert!(v == 0);
    }
    if c < 400 << 16 {
        assert!(v <= 0);
    }
    if c > 400 << 16 {
        assert!(v >= 0);
    }
    // 650 is exactly half way between default and max
    if c == 650 << 16 {
        assert!(v == 8192);
    }
    kani::cover!(v == 4096, "a quarter");
    std::mem::forget(t);
}

/// Endpoints through bytes for every axis triple of span < 32768.0.
// @tier thorough
// @bound fvar with 1 axis, min <= default <= max any 32-bit values with max-min < 2^31; user value at min, default or max
#[kani::proof]
#[kani::unwind(7)]
fn c13_normalize_endpoints_symbolic_axis() {
    let mut buf = [0u8; 36];
    fvar_header(&mut buf, 1);
    let min: i32 = kani::any();
    let def: i32 = kani::any();
    let max: i32 = kani::any();
    kani::assume(min < def && def < max);
    kani::assume((max as i64) - (min as i64) < (1i64 << 31));
    put_axis(&mut buf, 0, min, def, max);
    let fvar = ReadScope::new(&buf).read::<FvarTable<'_>>().unwrap();
    let which: u8 = kani::any();
    kani::assume(which < 3);
    let (c, expect) = match which {
        0 => (min, -16384),
        1 => (def, 0),
        _ => (max, 16384),
    };
    let user = [Fixed::from_raw(c)];
    let t = fvar.normalize(user.iter().copied(), None).unwrap();
    assert!(t[0].raw_value() == expect);
    kani::cover!(which == 2, "max");
    std::mem::forget(t);
}

// ---------------------------------------------------------------------------
// avar
// ---------------------------------------------------------------------------

/// Segment map bytes: count + (from,to) F2Dot14 pairs.
fn seg_map<const N: usize>(buf: &mut [u8], pairs: &[(i16, i16); N]) {
    put16(buf, 0, N as u16);
    let mut k = 0;
    while k < N {
        put16(buf, 2 + 4 * k, pairs[k].0 as u16);
        put16(buf, 4 + 4 * k, pairs[k].1 as u16);
        k += 1;
    }
}

/// The required identity map {-1 -> -1, 0 -> 0, 1 -> 1} changes nothing.
// @bound the 3-record identity segment map; every normalised 16.16 value in [-1.0, +1.0] (131073 values)
#[kani::proof]
#[kani::unwind(6)]
fn c13_avar_identity_map() {
    let mut buf = [0u8; 14];
    seg_map(&mut buf, &[(-16384, -16384), (0, 0), (16384, 16384)]);
    let map = ReadScope::new(&buf).read::<SegmentMap<'_>>().unwrap();
    let v: i32 = kani::any();
    kani::assume(v >= -65536 && v <= 65536);
    let out = map.normalize(Fixed::from_raw(v));
    assert!(out.raw_value() == v);
    kani::cover!(v == 12345, "an interior value");
}

/// A map with a symbolic middle knot: exact at the knots, and between the
/// images of the neighbouring knots in between (so monotone maps stay inside
/// their segment), for every input.
// @bound 4-record map (-1,-1) (0,0) (f,t) (1,1) with 0 < f < 1 and 0 <= t <= 1 symbolic 2.14 values; every normalised input in [-1,1]
#[kani::proof]
#[kani::unwind(7)]
fn c13_avar_knots_and_segments() {
    let f: i16 = kani::any();
    let t: i16 = kani::any();
    kani::assume(f > 0 && f < 16384 && t >= 0 && t <= 16384);
    let mut buf = [0u8; 18];
    seg_map(&mut buf, &[(-16384, -16384), (0, 0), (f, t), (16384, 16384)]);
    let map = ReadScope::new(&buf).read::<SegmentMap<'_>>().unwrap();
    let v: i32 = kani::any();
    kani::assume(v >= -65536 && v <= 65536);
    let out = map.normalize(Fixed::from_raw(v)).raw_value();
    let f16 = (f as i32) << 2;
    let t16 = (t as i32) << 2;
    if v == f16 {
        assert!(out == t16);
    }
    if v == 0 {
        assert!(out == 0);
    }
    if v == 65536 {
        assert!(out == 65536);
    }
    if v == -65536 {
        assert!(out == -65536);
    }
    if v <= 0 {
        // identity segment below zero
        assert!(out == v);
    }
    if v > 0 && v < f16 {
        // within [0, t] up to the rounding of the 16.16 ratio (one unit per multiplication)
        assert!(out >= -1 && out <= t16 + 1);
    }
    if v > f16 && v < 65536 {
        assert!(out >= t16 - 1 && out <= 65536 + 1);
    }
    kani::cover!(v > 0 && v < f16 && out > 0, "first segment interior");
    kani::cover!(v > f16 && v < 65536, "second segment interior");
}

/// FvarTable::normalize pairs axis k with segment map k (also when an earlier
/// axis sits at its default), applies the map after default normalisation and
/// clamps to [-1, 1].
// @bound fvar with 2 concrete axes (-1.0, 0, +1.0); avar with map 0 = (-1,-1) (0,0) (0.5,0.25) (1,1) and map 1 = identity; both user values symbolic in [-1.0, +1.0]
#[kani::proof]
#[kani::unwind(7)]
fn c13_avar_axis_pairing() {
    let mut fbuf = [0u8; 56];
    fvar_header(&mut fbuf, 2);
    put_axis(&mut fbuf, 0, -65536, 0, 65536);
    put_axis(&mut fbuf, 1, -65536, 0, 65536);
    let fvar = ReadScope::new(&fbuf).read::<FvarTable<'_>>().unwrap();
    let mut abuf = [0u8; 8 + 18 + 14];
    put16(&mut abuf, 0, 1);
    put16(&mut abuf, 6, 2);
    seg_map(&mut abuf[8..], &[(-16384, -16384), (0, 0), (8192, 4096), (16384, 16384)]);
    seg_map(&mut abuf[26..], &[(-16384, -16384), (0, 0), (16384, 16384)]);
    let avar = ReadScope::new(&abuf).read::<AvarTable<'_>>().unwrap();
    let u0: i32 = kani::any();
    let u1: i32 = kani::any();
    kani::assume(u0 >= -65536 && u0 <= 65536 && u1 >= -65536 && u1 <= 65536);
    let user = [Fixed::from_raw(u0), Fixed::from_raw(u1)];
    let t = fvar.normalize(user.iter().copied(), Some(&avar)).unwrap();
    assert!(t.len() == 2);
    // axis 1 goes through the identity map, whatever axis 0 is
    assert!(t[1].raw_value() == F2Dot14::from(Fixed::from_raw(u1)).raw_value());
    // axis 0 goes through map 0: knots are exact
    if u0 == 32768 {
        assert!(t[0].raw_value() == 4096);
    }
    if u0 <= 0 {
        assert!(t[0].raw_value() == F2Dot14::from(Fixed::from_raw(u0)).raw_value());
    }
    kani::cover!(u0 == 0 && u1 == 32768, "axis 0 at default, axis 1 off default");
    std::mem::forget(t);
}
