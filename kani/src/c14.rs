//! C14 - the binary reader never reads outside its buffer and decodes exactly.
//!
//! Every harness works on `&buf[..len]` with `len` symbolic, so "truncated
//! anywhere" is inside the claim. CBMC's pointer checks are on: an
//! out-of-bounds `get_unchecked` in `read_unchecked_*` fails the harness.
//!
//! @funcs ReadCtxt::{read_u8..read_i64be, read, read_array, read_array_stride, read_array_dep, read_array_upto_hack, read_scope, read_slice, check_avail, read_unchecked_*}
//! @funcs ReadScope::{offset, offset_length, ctxt, read}, ReadArray::{len, get_item, read_item, last, iter, iter_res, binary_search_by, check_index}, ReadArrayCow::*
//! @bound buffers <= 12 bytes with symbolic length and symbolic cursor; array lengths 0..=4; every length/offset/stride/index argument ranges over all of usize
//! @out buffers longer than 12 bytes, arrays longer than 4 elements, sequences of more than 3 reader operations (c14_three_step_sequences covers every sequence of 3), ReadCache (HashMap)

use crate::util::*;
use allsorts::binary::read::{CheckIndex, ReadArray, ReadArrayCow, ReadCtxt, ReadScope};
use allsorts::binary::{I16Be, I32Be, I64Be, U16Be, U24Be, U32Be, U64Be, I8, U8};
use allsorts::error::ParseError;
use allsorts::tables::variable_fonts::VariationRegion;
use std::cmp::Ordering;

const N: usize = 12;

/// Cursor position observed through the public API: bytes left in the scope.
fn remaining(ctxt: &ReadCtxt<'_>) -> usize {
    ctxt.scope().data().len()
}

macro_rules! prim {
    ($name:ident, $method:ident, $size:expr, $ty:ty) => {
        #[kani::proof]
        #[kani::unwind(10)]
        fn $name() {
            let buf: [u8; N] = kani::any();
            let len = any_len(N);
            let skip = any_len(len);
            let mut ctxt = ReadScope::new(&buf[..len]).ctxt();
            assert!(ctxt.read_slice(skip).is_ok());
            assert!(remaining(&ctxt) == len - skip);
            match ctxt.$method() {
                Ok(v) => {
                    assert!(skip + $size <= len);
                    assert!(v == be(&buf, skip, $size) as $ty);
                    assert!(remaining(&ctxt) == len - skip - $size);
                    // the next read sees the byte right after the value
                    match ctxt.read_u8() {
                        Ok(b) => assert!(skip + $size < len && b == buf[skip + $size]),
                        Err(_) => assert!(skip + $size == len),
                    }
                    kani::cover!(true, "ok path");
                }
                Err(_) => {
                    assert!(skip + $size > len);
                    // no effect: cursor unchanged
                    assert!(remaining(&ctxt) == len - skip);
                    kani::cover!(true, "eof path");
                }
            }
        }
    };
}

prim!(c14_prim_u8, read_u8, 1, u8);
prim!(c14_prim_i8, read_i8, 1, i8);
prim!(c14_prim_u16be, read_u16be, 2, u16);
prim!(c14_prim_i16be, read_i16be, 2, i16);
prim!(c14_prim_u32be, read_u32be, 4, u32);
prim!(c14_prim_i32be, read_i32be, 4, i32);
prim!(c14_prim_u64be, read_u64be, 8, u64);
prim!(c14_prim_i64be, read_i64be, 8, i64);

/// U24Be has no `read_u24be` method; it goes through the generic
/// `ReadBinary for T: ReadUnchecked` blanket impl (check_avail(T::SIZE)).
#[kani::proof]
#[kani::unwind(10)]
fn c14_prim_u24be() {
    let buf: [u8; N] = kani::any();
    let len = any_len(N);
    let skip = any_len(len);
    let mut ctxt = ReadScope::new(&buf[..len]).ctxt();
    assert!(ctxt.read_slice(skip).is_ok());
    match ctxt.read::<U24Be>() {
        Ok(v) => {
            assert!(skip + 3 <= len);
            assert!(v == be(&buf, skip, 3) as u32);
            assert!(remaining(&ctxt) == len - skip - 3);
            kani::cover!(true, "ok path");
        }
        Err(e) => {
            assert!(e == ParseError::BadEof);
            assert!(skip + 3 > len);
            assert!(remaining(&ctxt) == len - skip);
            kani::cover!(true, "eof path");
        }
    }
}

/// Tuple reads (the building block of every `ReadFrom` record): size is the
/// sum, fields are decoded in order.
#[kani::proof]
#[kani::unwind(10)]
fn c14_tuple_read() {
    let buf: [u8; N] = kani::any();
    let len = any_len(N);
    let mut ctxt = ReadScope::new(&buf[..len]).ctxt();
    match ctxt.read::<(U16Be, U8, I16Be, U32Be)>() {
        Ok((a, b, c, d)) => {
            assert!(len >= 9);
            assert!(a == be16(&buf, 0));
            assert!(b == buf[2]);
            assert!(c == be16(&buf, 3) as i16);
            assert!(d == be32(&buf, 5));
            assert!(remaining(&ctxt) == len - 9);
            kani::cover!(true, "ok path");
        }
        Err(_) => {
            assert!(len < 9);
            assert!(remaining(&ctxt) == len);
            kani::cover!(true, "eof path");
        }
    }
}

/// read_array::<U16Be>(n) for ANY usize n (this is where `n * SIZE` can wrap).
// @release
#[kani::proof]
#[kani::unwind(10)]
fn c14_read_array_u16_any_len() {
    let buf: [u8; N] = kani::any();
    let len = any_len(N);
    let skip = any_len(len);
    let n: usize = kani::any();
    let i: usize = kani::any();
    let mut ctxt = ReadScope::new(&buf[..len]).ctxt();
    assert!(ctxt.read_slice(skip).is_ok());
    match ctxt.read_array::<U16Be>(n) {
        Ok(array) => {
            // the window lies inside the buffer
            assert!(n <= (len - skip) / 2);
            assert!(array.len() == n);
            assert!(array.is_empty() == (n == 0));
            assert!(remaining(&ctxt) == len - skip - 2 * n);
            match array.get_item(i) {
                Some(v) => assert!(i < n && v == be16(&buf, skip + 2 * i)),
                None => assert!(i >= n),
            }
            match array.read_item(i) {
                Ok(v) => assert!(i < n && v == be16(&buf, skip + 2 * i)),
                Err(e) => assert!(i >= n && e == ParseError::BadIndex),
            }
            assert!(array.check_index(i).is_ok() == (i < n));
            match array.last() {
                Some(v) => assert!(n > 0 && v == be16(&buf, skip + 2 * (n - 1))),
                None => assert!(n == 0),
            }
            kani::cover!(n == 3, "three elements");
        }
        Err(e) => {
            assert!(e == ParseError::BadEof);
            assert!(n > (len - skip) / 2);
            assert!(remaining(&ctxt) == len - skip);
            kani::cover!(n > usize::MAX / 2, "wrapping length rejected");
        }
    }
}

/// read_array::<U32Be> / U24Be: another element size for the same rule.
#[kani::proof]
#[kani::unwind(10)]
fn c14_read_array_u24_any_len() {
    let buf: [u8; N] = kani::any();
    let len = any_len(N);
    let n: usize = kani::any();
    let i: usize = kani::any();
    let mut ctxt = ReadScope::new(&buf[..len]).ctxt();
    match ctxt.read_array::<U24Be>(n) {
        Ok(array) => {
            assert!(n <= len / 3);
            assert!(array.len() == n);
            assert!(remaining(&ctxt) == len - 3 * n);
            match array.get_item(i) {
                Some(v) => assert!(i < n && v == be(&buf, 3 * i, 3) as u32),
                None => assert!(i >= n),
            }
            kani::cover!(n == 4, "four elements");
        }
        Err(_) => {
            assert!(n > len / 3);
            assert!(remaining(&ctxt) == len);
            kani::cover!(true, "rejected");
        }
    }
}

/// read_array_stride::<U16Be>(n, stride): ANY n, ANY stride.
// @release
#[kani::proof]
#[kani::unwind(10)]
fn c14_read_array_stride_any() {
    let buf: [u8; N] = kani::any();
    let len = any_len(N);
    let n: usize = kani::any();
    let stride: usize = kani::any();
    let i: usize = kani::any();
    let mut ctxt = ReadScope::new(&buf[..len]).ctxt();
    match ctxt.read_array_stride::<U16Be>(n, stride) {
        Ok(array) => {
            assert!(stride >= 2);
            // n * stride fits in the buffer (mathematically, no wrap)
            assert!(n == 0 || (stride <= len && n <= len / stride));
            assert!(array.len() == n);
            assert!(remaining(&ctxt) == len - n * stride);
            match array.get_item(i) {
                Some(v) => assert!(i < n && v == be16(&buf, i * stride)),
                None => assert!(i >= n),
            }
            // read_item and iter_res see the same elements as get_item and iter
            match array.read_item(i) {
                Ok(v) => assert!(i < n && v == be16(&buf, i * stride), "read_item on a strided array"),
                Err(e) => assert!(i >= n && e == ParseError::BadIndex),
            }
            kani::cover!(n == 2 && stride == 5, "two elements, stride 5");
        }
        Err(e) => {
            if stride < 2 {
                assert!(e == ParseError::BadValue);
            } else {
                assert!(e == ParseError::BadEof);
                assert!(n != 0 && (stride > len || n > len / stride));
            }
            assert!(remaining(&ctxt) == len);
            kani::cover!(stride >= 2, "eof");
        }
    }
}

/// read_array_dep with a size that depends on the argument
/// (`VariationRegion`, 6 bytes per axis): ANY n, any axis count.
// @release
#[kani::proof]
#[kani::unwind(10)]
fn c14_read_array_dep_any() {
    let buf: [u8; N] = kani::any();
    let len = any_len(N);
    let n: usize = kani::any();
    let axis_count: u16 = kani::any();
    let i: usize = kani::any();
    let mut ctxt = ReadScope::new(&buf[..len]).ctxt();
    let size = axis_count as usize * 6;
    match ctxt.read_array_dep::<VariationRegion<'_>>(n, axis_count) {
        Ok(array) => {
            assert!(n == 0 || size == 0 || (size <= len && n <= len / size));
            assert!(array.len() == n);
            match array.read_item(i) {
                Ok(_) => assert!(i < n),
                Err(e) => assert!(i >= n && e == ParseError::BadIndex),
            }
            kani::cover!(n == 2 && axis_count == 1, "two regions of one axis");
        }
        Err(e) => {
            assert!(e == ParseError::BadEof);
            assert!(n != 0 && size != 0 && (size > len || n > len / size));
            assert!(remaining(&ctxt) == len);
            kani::cover!(true, "rejected");
        }
    }
}

/// read_array_upto_hack truncates the count to what fits, never beyond.
// @release
#[kani::proof]
#[kani::unwind(10)]
fn c14_read_array_upto_hack() {
    let buf: [u8; N] = kani::any();
    let len = any_len(N);
    let skip = any_len(len);
    let n: usize = kani::any();
    let i: usize = kani::any();
    let mut ctxt = ReadScope::new(&buf[..len]).ctxt();
    assert!(ctxt.read_slice(skip).is_ok());
    match ctxt.read_array_upto_hack::<U16Be>(n) {
        Ok(array) => {
            let fit = (len - skip) / 2;
            let expect = if n < fit { n } else { fit };
            assert!(array.len() == expect);
            match array.get_item(i) {
                Some(v) => assert!(i < expect && v == be16(&buf, skip + 2 * i)),
                None => assert!(i >= expect),
            }
            kani::cover!(n > fit, "truncated");
        }
        Err(_) => assert!(false),
    }
}

/// read_slice / read_scope with ANY length; ReadScope::offset_length with ANY
/// offset and length; ReadScope::offset with ANY offset.
// @release
#[kani::proof]
#[kani::unwind(10)]
fn c14_slices_and_scopes() {
    let buf: [u8; N] = kani::any();
    let len = any_len(N);
    let skip = any_len(len);
    let n: usize = kani::any();
    let scope = ReadScope::new(&buf[..len]);
    let mut ctxt = scope.ctxt();
    assert!(ctxt.read_slice(skip).is_ok());
    match ctxt.read_slice(n) {
        Ok(s) => {
            assert!(n <= len - skip);
            assert!(s.len() == n);
            let k = any_len(N);
            if k < n {
                assert!(s[k] == buf[skip + k]);
            }
            assert!(remaining(&ctxt) == len - skip - n);
            kani::cover!(n == 5, "five bytes");
        }
        Err(_) => {
            assert!(n > len - skip);
            assert!(remaining(&ctxt) == len - skip);
            kani::cover!(true, "eof");
        }
    }

    let off: usize = kani::any();
    let l: usize = kani::any();
    match scope.offset_length(off, l) {
        Ok(sub) => {
            // window inside the buffer (a zero-length window may sit anywhere)
            assert!(l == 0 || (off < len && l <= len - off));
            assert!(sub.data().len() == l);
            let k = any_len(N);
            if k < l {
                assert!(sub.data()[k] == buf[off + k]);
            }
            kani::cover!(l == 3 && off == 2, "window 2..5");
        }
        Err(e) => {
            assert!(l != 0);
            if off >= len {
                assert!(e == ParseError::BadOffset);
            } else {
                assert!(e == ParseError::BadEof && l > len - off);
            }
        }
    }

    let sub = scope.offset(off);
    if off <= len {
        assert!(sub.data().len() == len - off);
        let k = any_len(N);
        if k < len - off {
            assert!(sub.data()[k] == buf[off + k]);
        }
    } else {
        assert!(sub.data().is_empty());
    }
}

/// Iteration yields exactly len() items, the k-th equal to get_item(k).
/// Array of 0..=4 u16 elements (reader-only: the count is symbolic).
#[kani::proof]
#[kani::unwind(8)]
fn c14_iter_matches_index() {
    let buf: [u8; 8] = kani::any();
    let n = any_len(4);
    let scope = ReadScope::new(&buf);
    let mut ctxt = scope.ctxt();
    let array = ctxt.read_array::<U16Be>(n).unwrap();
    let mut count = 0usize;
    for v in array.iter() {
        assert!(count < n);
        assert!(v == be16(&buf, 2 * count));
        count += 1;
    }
    assert!(count == n);
    assert!(array.iter().size_hint() == (n, Some(n)));

    let mut count = 0usize;
    for r in array.iter_res() {
        assert!(count < n);
        assert!(r == Ok(be16(&buf, 2 * count)));
        count += 1;
    }
    assert!(count == n);
    kani::cover!(n == 4, "four items");
}

/// Strided iteration: `iter()` on a stride-5 array of u16 yields exactly
/// len() items at multiples of the stride.
#[kani::proof]
#[kani::unwind(6)]
fn c14_iter_strided() {
    let buf: [u8; 15] = kani::any();
    let n = any_len(3);
    let stride: usize = kani::any();
    kani::assume(stride >= 2 && stride <= 5);
    let scope = ReadScope::new(&buf);
    let mut ctxt = scope.ctxt();
    let array = ctxt.read_array_stride::<U16Be>(n, stride).unwrap();
    let mut count = 0usize;
    for v in array.iter() {
        assert!(count < n);
        assert!(v == be16(&buf, stride * count));
        count += 1;
    }
    assert!(count == n);
    kani::cover!(n == 3 && stride == 5, "three items stride 5");
}

/// ReadArrayCow: both variants agree with the underlying data.
#[kani::proof]
#[kani::unwind(8)]
fn c14_array_cow() {
    let buf: [u8; 6] = kani::any();
    let n = any_len(3);
    let i: usize = kani::any();
    let scope = ReadScope::new(&buf);
    let mut ctxt = scope.ctxt();
    let array = ctxt.read_array::<U16Be>(n).unwrap();
    let borrowed: ReadArrayCow<'_, U16Be> = ReadArrayCow::Borrowed(array);
    assert!(borrowed.len() == n);
    assert!(borrowed.is_empty() == (n == 0));
    match borrowed.get_item(i) {
        Some(v) => assert!(i < n && v == be16(&buf, 2 * i)),
        None => assert!(i >= n),
    }
    match borrowed.read_item(i) {
        Ok(v) => assert!(i < n && v == be16(&buf, 2 * i)),
        Err(e) => assert!(i >= n && e == ParseError::BadIndex),
    }
    assert!(borrowed.check_index(i).is_ok() == (i < n));
    let mut count = 0usize;
    for v in borrowed.iter() {
        assert!(count < n && v == be16(&buf, 2 * count));
        count += 1;
    }
    assert!(count == n);

    let a: u16 = kani::any();
    let b: u16 = kani::any();
    let owned: ReadArrayCow<'_, U16Be> = ReadArrayCow::Owned(vec![a, b]);
    assert!(owned.len() == 2);
    match owned.get_item(i) {
        Some(v) => assert!((i == 0 && v == a) || (i == 1 && v == b)),
        None => assert!(i >= 2),
    }
    match owned.read_item(i) {
        Ok(v) => assert!((i == 0 && v == a) || (i == 1 && v == b)),
        Err(e) => assert!(i >= 2 && e == ParseError::BadIndex),
    }
    assert!(owned.check_index(i).is_ok() == (i < 2));
    kani::cover!(n == 3, "three borrowed items");
    std::mem::forget(owned);
}

/// binary_search_by on a sorted array of 0..=4 u16: Ok(i) => element i is the
/// key; Err(i) => the key is absent and i is the insertion point.
#[kani::proof]
#[kani::unwind(8)]
fn c14_binary_search() {
    let buf: [u8; 8] = kani::any();
    let n = any_len(4);
    let key: u16 = kani::any();
    let scope = ReadScope::new(&buf);
    let mut ctxt = scope.ctxt();
    let array = ctxt.read_array::<U16Be>(n).unwrap();
    // sorted, strictly increasing (what every caller in allsorts relies on)
    let mut k = 1;
    while k < 4 {
        if k < n {
            kani::assume(be16(&buf, 2 * (k - 1)) < be16(&buf, 2 * k));
        }
        k += 1;
    }
    match array.binary_search_by(|v| v.cmp(&key)) {
        Ok(i) => {
            assert!(i < n);
            assert!(be16(&buf, 2 * i) == key);
            kani::cover!(i == 3, "found last");
        }
        Err(i) => {
            assert!(i <= n);
            let mut k = 0;
            while k < 4 {
                if k < n {
                    let v = be16(&buf, 2 * k);
                    assert!(v != key);
                    assert!((k < i) == (v < key));
                }
                k += 1;
            }
            kani::cover!(n == 4 && i == 2, "absent, insertion point 2");
        }
    }
}

/// A strided array used with binary search (as fvar/MVAR do): the element
/// inspected is the one at `mid * stride`, never outside the window.
#[kani::proof]
#[kani::unwind(8)]
fn c14_binary_search_strided() {
    let buf: [u8; 12] = kani::any();
    let n = any_len(3);
    let key: u16 = kani::any();
    let scope = ReadScope::new(&buf);
    let mut ctxt = scope.ctxt();
    let array = ctxt.read_array_stride::<U16Be>(n, 4).unwrap();
    let mut k = 1;
    while k < 3 {
        if k < n {
            kani::assume(be16(&buf, 4 * (k - 1)) < be16(&buf, 4 * k));
        }
        k += 1;
    }
    match array.binary_search_by(|v| v.cmp(&key)) {
        Ok(i) => assert!(i < n && be16(&buf, 4 * i) == key),
        Err(i) => {
            assert!(i <= n);
            let mut k = 0;
            while k < 3 {
                if k < n {
                    assert!(be16(&buf, 4 * k) != key);
                }
                k += 1;
            }
        }
    }
    kani::cover!(n == 3, "three elements");
}

/// Two-step operation sequences: after a failed read the next, smaller read
/// behaves as if the failed one had never been issued ("leaving no effect").
#[kani::proof]
#[kani::unwind(10)]
fn c14_failed_read_has_no_effect() {
    let buf: [u8; N] = kani::any();
    let len = any_len(N);
    let skip = any_len(len);
    let mut a = ReadScope::new(&buf[..len]).ctxt();
    let mut b = ReadScope::new(&buf[..len]).ctxt();
    assert!(a.read_slice(skip).is_ok());
    assert!(b.read_slice(skip).is_ok());
    let which: u8 = kani::any();
    let failed = match which % 5 {
        0 => a.read_u64be().is_err(),
        1 => a.read_u32be().is_err(),
        2 => a.read::<(U32Be, U24Be)>().is_err(),
        3 => a.read_array::<U32Be>(kani::any()).is_err(),
        _ => a.read_slice(kani::any()).is_err(),
    };
    if failed {
        assert!(a.read_u8().ok() == b.read_u8().ok());
        assert!(a.read_u16be().ok() == b.read_u16be().ok());
        assert!(remaining(&a) == remaining(&b));
        kani::cover!(which % 5 == 3, "failed array read");
    }
}

/// Sequences of three reader operations chosen freely from the typed reads, read_slice
/// and read_array with arbitrary arguments: after every step the cursor is where a
/// reference cursor says it is (advanced by exactly the size on success, unchanged on
/// failure) and every value returned is the big-endian value at the reference cursor.
// @bound every sequence of 3 operations out of {read_u8, read_u16be, read_u32be, read::<U24Be>, read_slice(n), read_array::<U16Be>(n), read_u64be} with n any usize, over any 12-byte buffer truncated anywhere
// @release
#[kani::proof]
#[kani::unwind(10)]
fn c14_three_step_sequences() {
    let buf: [u8; N] = kani::any();
    let len = any_len(N);
    let mut ctxt = ReadScope::new(&buf[..len]).ctxt();
    let mut cur = 0usize; // reference cursor
    let mut step = 0;
    while step < 3 {
        let op: u8 = kani::any();
        let n: usize = kani::any();
        let left = len - cur;
        match op % 7 {
            0 => match ctxt.read_u8() {
                Ok(v) => {
                    assert!(left >= 1 && v == buf[cur]);
                    cur += 1;
                }
                Err(_) => assert!(left < 1),
            },
            1 => match ctxt.read_u16be() {
                Ok(v) => {
                    assert!(left >= 2 && v == be16(&buf, cur));
                    cur += 2;
                }
                Err(_) => assert!(left < 2),
            },
            2 => match ctxt.read_u32be() {
                Ok(v) => {
                    assert!(left >= 4 && v == be32(&buf, cur));
                    cur += 4;
                }
                Err(_) => assert!(left < 4),
            },
            3 => match ctxt.read::<U24Be>() {
                Ok(v) => {
                    assert!(left >= 3 && v == be(&buf, cur, 3) as u32);
                    cur += 3;
                }
                Err(_) => assert!(left < 3),
            },
            4 => match ctxt.read_slice(n) {
                Ok(sl) => {
                    assert!(n <= left && sl.len() == n);
                    if n > 0 {
                        assert!(sl[0] == buf[cur] && sl[n - 1] == buf[cur + n - 1]);
                    }
                    cur += n;
                }
                Err(_) => assert!(n > left),
            },
            5 => match ctxt.read_array::<U16Be>(n) {
                Ok(a) => {
                    assert!(n <= left / 2 && a.len() == n);
                    if n > 0 {
                        assert!(a.get_item(n - 1) == Some(be16(&buf, cur + 2 * (n - 1))));
                    }
                    cur += 2 * n;
                }
                Err(_) => assert!(n > left / 2),
            },
            _ => match ctxt.read_u64be() {
                Ok(v) => {
                    assert!(left >= 8 && v == be(&buf, cur, 8));
                    cur += 8;
                }
                Err(_) => assert!(left < 8),
            },
        }
        assert!(remaining(&ctxt) == len - cur);
        step += 1;
    }
    kani::cover!(cur == len && len == N, "the three steps consumed the whole buffer");
}
