//! C15 - reading is the inverse of writing: CFF charsets, FDSelects, encodings and the INDEX size
//! prediction.
//!
//! @funcs cff::CustomCharset::{read_dep, write}, cff::read_range_array, cff::FDSelect::{read_dep, write}, cff::Range::{read, write}, ReadArrayCow::write, cff::Index::calculate_size, cff::offset_size, cff::serialise_offset_array (hook H5), WriteCounter
//! @out charsets of more than 5 glyphs, FDSelect format 3 with more than 2 ranges, owned (ReadArrayCow::Owned) arrays, the DICTs and INDEX data of a whole CFF table (section 4 of DESIGN.md)

use crate::util::*;
use allsorts::binary::read::ReadScope;
use allsorts::binary::write::{WriteBinary, WriteBinaryDep, WriteBuffer, WriteContext};
use allsorts::cff::{CustomCharset, FDSelect, Index};
use allsorts::error::WriteError;

fn same_prefix(out: &[u8], buf: &[u8], n: usize) -> bool {
    if out.len() != n {
        return false;
    }
    let mut i = 0;
    let mut ok = true;
    while i < n {
        if out[i] != buf[i] {
            ok = false;
        }
        i += 1;
    }
    ok
}

/// Number of bytes a custom charset for `n_glyphs` glyphs occupies according to TN5176 section 13:
/// format 0 one SID per glyph but .notdef; formats 1/2 as many ranges as it takes to cover them.
fn charset_len(buf: &[u8], n_glyphs: usize) -> Option<usize> {
    let want = n_glyphs - 1;
    match buf[0] {
        0 => Some(1 + 2 * want),
        f @ (1 | 2) => {
            let rec = if f == 1 { 3 } else { 4 };
            let mut at = 1;
            let mut covered = 0usize;
            while covered < want {
                if at + rec > buf.len() {
                    return None;
                }
                let n_left = if f == 1 { buf[at + 2] as usize } else { be16(buf, at + 2) as usize };
                covered += n_left + 1;
                at += rec;
            }
            Some(at)
        }
        _ => None,
    }
}

/// Custom charsets: bytes -> read -> write reproduces exactly the bytes the reader consumed,
/// for the three formats; unknown formats are refused.
// @bound charset for 5 glyphs (4 names) in a 17-byte buffer: format byte and every SID / range symbolic (so 1 to 4 ranges in formats 1 and 2)
#[kani::proof]
#[kani::unwind(18)]
fn c15_cff_charset_roundtrip() {
    const N_GLYPHS: usize = 5;
    let buf: [u8; 17] = kani::any();
    let parsed = ReadScope::new(&buf).read_dep::<CustomCharset<'_>>(N_GLYPHS);
    match charset_len(&buf, N_GLYPHS) {
        Some(n) => {
            let charset = parsed.unwrap();
            let mut out = WriteBuffer::new();
            CustomCharset::write(&mut out, &charset).unwrap();
            assert!(same_prefix(out.bytes(), &buf, n), "charset round trip");
            kani::cover!(buf[0] == 1 && n == 1 + 3 * 2, "format 1, two ranges");
            kani::cover!(buf[0] == 2 && n == 1 + 4 * 4, "format 2, four ranges");
            kani::cover!(buf[0] == 0, "format 0");
            std::mem::forget(out);
        }
        None => {
            assert!(parsed.is_err(), "unknown charset format");
            kani::cover!(true, "refused");
        }
    }
}

/// FDSelect: bytes -> read -> write reproduces the bytes consumed (format 0: one byte per glyph;
/// format 3: nRanges, Range3 records, sentinel); formats other than 0 and 3 are refused.
// @bound FDSelect for 4 glyphs in a 12-byte buffer; format byte symbolic, format 3 with 0, 1 or 2 ranges, all values symbolic
#[kani::proof]
#[kani::unwind(14)]
fn c15_cff_fdselect_roundtrip() {
    const N_GLYPHS: usize = 4;
    let buf: [u8; 12] = kani::any();
    if buf[0] == 3 {
        kani::assume(be16(&buf, 1) <= 2);
    }
    let parsed = ReadScope::new(&buf).read_dep::<FDSelect<'_>>(N_GLYPHS);
    let n = match buf[0] {
        0 => 1 + N_GLYPHS,
        3 => 1 + 2 + 3 * be16(&buf, 1) as usize + 2,
        _ => {
            assert!(parsed.is_err());
            return;
        }
    };
    let fd_select = parsed.unwrap();
    let mut out = WriteBuffer::new();
    FDSelect::write(&mut out, &fd_select).unwrap();
    assert!(same_prefix(out.bytes(), &buf, n), "FDSelect round trip");
    kani::cover!(buf[0] == 3 && n == 11, "format 3, two ranges");
    kani::cover!(buf[0] == 0, "format 0");
    std::mem::forget(out);
}

/// An object that serialises to `.0` bytes (stands for a DICT of that size).
struct Blob(usize);
static ZEROS: [u8; 70_000] = [0; 70_000];

impl<'a> WriteBinaryDep<&'a Blob> for Blob {
    type Args = ();
    type Output = ();
    fn write_dep<C: WriteContext>(ctxt: &mut C, blob: &'a Blob, _args: ()) -> Result<(), WriteError> {
        ctxt.write_bytes(&ZEROS[..blob.0])
    }
}

/// `Index::calculate_size` (used to reserve room for the Top DICT INDEX before its offsets are
/// known) predicts exactly the size of the INDEX that is then written: count (2) + offSize (1) +
/// offset array ((count + 1) * offSize) + data, with the offSize the serialiser picks for the
/// same offsets (hook H5) - which is the smallest that holds the last offset.
// @bound INDEXes of one object of any size 0..=70000 and of two objects of any sizes with a sum <= 70000 (covers the offSize boundaries at last offset 255/256 and 65535/65536)
#[kani::proof]
#[kani::unwind(8)]
fn c15_cff_index_size_prediction() {
    let a: usize = kani::any();
    let b: usize = kani::any();
    let two: bool = kani::any();
    kani::assume(a <= 70_000 && b <= 70_000 && a + b <= 70_000);
    let (x, y) = (Blob(a), Blob(b));
    let (size, count, data, offsets) = if two {
        (Index::calculate_size::<Blob, Blob>(&[&x, &y], ()), 2, a + b, vec![1, a + 1, a + b + 1])
    } else {
        (Index::calculate_size::<Blob, Blob>(&[&x], ()), 1, a, vec![1, a + 1])
    };
    let (off_size, bytes) = allsorts::cff::verif_serialise_offset_array(offsets).unwrap();
    let last = data + 1;
    let want = if last <= 0xFF { 1 } else if last <= 0xFFFF { 2 } else { 3 };
    assert!(off_size == want);
    assert!(bytes.len() == (count + 1) * want as usize);
    assert!(size.unwrap() == 2 + 1 + bytes.len() + data, "predicted INDEX size");
    kani::cover!(last == 255, "largest one-byte offset");
    kani::cover!(last == 256 && two, "smallest two-byte offset");
    kani::cover!(last == 65536, "smallest three-byte offset");
    std::mem::forget(bytes);
}

/// An empty INDEX is the 2-byte count alone.
// @bound the empty object list
#[kani::proof]
#[kani::unwind(4)]
fn c15_cff_index_size_empty() {
    let size = Index::calculate_size::<Blob, Blob>(&[], ());
    assert!(size.unwrap() == 2);
    kani::cover!(true, "empty");
}
