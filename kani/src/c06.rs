//! C06 - character-to-glyph mapping conforms to the cmap encodings.
//!
//! Each harness builds a cmap subtable as a byte buffer with a concrete shape
//! (segment / group / entry counts) and symbolic values, parses it with the real
//! `CmapSubtable::read` and compares `map_glyph(ch)` for an arbitrary `ch` with
//! the address arithmetic of the OpenType specification restated here.
//!
//! @funcs CmapSubtable::read, CmapSubtable::map_glyph, CmapSubtable::mappings_fn, Format4::{map_glyph, mappings_fn, glyph_id_for_id_range_offset}, cmap::offset_to_index, Cmap::read, Cmap::{find_subtable, find_subtable_for_platform}, font::find_good_cmap_subtable, macroman::{char_to_macroman, macroman_to_char}, owned::CmapSubtable::map_glyph
//! @out format 2 beyond one two-byte range, format 4 with more than 3 segments / 4 glyphIdArray entries, more than 3 groups/entries in formats 6/10/12, Big5 (encoding_rs decoder), Font::lookup_glyph_index encoding dispatch (heavy; see C03 for the Font harness), the 0xFFFF idRangeOffset Fontographer work-around

use crate::util::*;
use crate::util::provider;
use allsorts::binary::read::ReadScope;
use allsorts::error::ParseError;
use allsorts::font::{find_good_cmap_subtable, Encoding};
use allsorts::macroman::{char_to_macroman, macroman_to_char};
use allsorts::binary::U16Be;
use allsorts::tables::cmap::{Cmap, CmapSubtable, EncodingId, PlatformId, SubHeader};

// ---------------------------------------------------------------------------
// format 4
// ---------------------------------------------------------------------------

/// Offsets inside a format 4 subtable with `nseg` segments.
struct F4 {
    nseg: usize,
    end: usize,
    start: usize,
    delta: usize,
    range: usize,
    gia: usize,
}

fn f4_layout(nseg: usize) -> F4 {
    let end = 14;
    let start = end + 2 * nseg + 2;
    let delta = start + 2 * nseg;
    let range = delta + 2 * nseg;
    let gia = range + 2 * nseg;
    F4 { nseg, end, start, delta, range, gia }
}

/// Specification semantics of format 4 (OpenType cmap, "Format 4: Segment mapping
/// to delta values"). `Ok(None)` = no segment contains ch, `Err(())` = the
/// idRangeOffset address falls outside the glyphIdArray (malformed table).
fn f4_reference(buf: &[u8], l: &F4, ngia: usize, ch: u16) -> Result<Option<u16>, ()> {
    let mut i = 0;
    while i < l.nseg {
        let end = be16(buf, l.end + 2 * i);
        if end >= ch {
            let start = be16(buf, l.start + 2 * i);
            if start > ch {
                return Ok(None);
            }
            let delta = be16(buf, l.delta + 2 * i);
            let ro = be16(buf, l.range + 2 * i);
            if ro == 0 {
                return Ok(Some(ch.wrapping_add(delta)));
            }
            // address of the glyph id = &idRangeOffset[i] + idRangeOffset[i] + 2*(ch - start)
            let addr = l.range + 2 * i + ro as usize + 2 * (ch - start) as usize;
            if ro & 1 != 0 || addr < l.gia || addr + 2 > l.gia + 2 * ngia {
                return Err(());
            }
            let g = be16(buf, addr);
            return Ok(Some(if g == 0 { 0 } else { g.wrapping_add(delta) }));
        }
        i += 1;
    }
    Ok(None)
}

fn f4_header(buf: &mut [u8], nseg: usize, total: usize) {
    put16(buf, 0, 4);
    put16(buf, 2, total as u16);
    put16(buf, 6, (2 * nseg) as u16);
}

/// Well-formedness the format requires: segments sorted by end code, disjoint,
/// start <= end, last end code 0xFFFF.
fn f4_assume_well_formed(buf: &[u8], l: &F4) {
    let mut i = 0;
    while i < l.nseg {
        let s = be16(buf, l.start + 2 * i);
        let e = be16(buf, l.end + 2 * i);
        kani::assume(s <= e);
        if i + 1 < l.nseg {
            kani::assume(e < be16(buf, l.start + 2 * (i + 1)));
        } else {
            kani::assume(e == 0xFFFF);
        }
        // the Fontographer work-around (0xFFFF treated as 0) is a documented deviation
        kani::assume(be16(buf, l.range + 2 * i) != 0xFFFF);
        i += 1;
    }
}

macro_rules! format4_harness {
    ($name:ident, $nseg:expr, $ngia:expr) => {
        #[kani::proof]
        #[kani::unwind(8)]
        fn $name() {
            const NSEG: usize = $nseg;
            const NGIA: usize = $ngia;
            const TOTAL: usize = 16 + 8 * NSEG + 2 * NGIA;
            let mut buf: [u8; TOTAL] = kani::any();
            f4_header(&mut buf, NSEG, TOTAL);
            let l = f4_layout(NSEG);
            f4_assume_well_formed(&buf, &l);
            let ch: u32 = kani::any();
            let sub = ReadScope::new(&buf).read::<CmapSubtable<'_>>().unwrap();
            let got = sub.map_glyph(ch);
            if ch > 0xFFFF {
                // format 4 cannot map it: no glyph may be reported
                assert!(!matches!(got, Ok(Some(g)) if g != 0));
                return;
            }
            match f4_reference(&buf, &l, NGIA, ch as u16) {
                Ok(expected) => {
                    assert!(got == Ok(expected));
                    kani::cover!(matches!(expected, Some(g) if g != 0), "mapped");
                }
                Err(()) => {
                    assert!(got.is_err());
                    kani::cover!(true, "idRangeOffset outside glyphIdArray");
                }
            }
            // which path was taken
            let seg0_ro = be16(&buf, l.range);
            kani::cover!(seg0_ro != 0 && matches!(got, Ok(Some(g)) if g != 0), "idRangeOffset path");
        }
    };
}

// @bound format 4 subtable with 2 segments and a 2-entry glyphIdArray (36 bytes); every start/end/idDelta/idRangeOffset/glyphIdArray value symbolic under the format's sortedness rule; ch any u32
// @release
format4_harness!(c06_format4_2seg, 2, 2);
// @tier thorough
// @bound format 4 subtable with 3 segments and a 4-entry glyphIdArray (48 bytes); ch any u32
format4_harness!(c06_format4_3seg, 3, 4);

/// mappings_fn and map_glyph agree on a format 4 table: every enumerated pair is
/// what a single lookup returns, and every character a lookup maps is enumerated.
// @tier thorough
// @bound format 4, 2 segments: first of width <= 2, second the mandatory [0xFFFF,0xFFFF] terminator; idRangeOffset of segment 0 symbolic, 2-entry glyphIdArray
#[kani::proof]
#[kani::unwind(8)]
fn c06_format4_mappings_consistent() {
    const TOTAL: usize = 36;
    let mut buf: [u8; TOTAL] = kani::any();
    f4_header(&mut buf, 2, TOTAL);
    let l = f4_layout(2);
    f4_assume_well_formed(&buf, &l);
    let s0 = be16(&buf, l.start);
    let e0 = be16(&buf, l.end);
    kani::assume(e0 - s0 <= 1);
    kani::assume(be16(&buf, l.start + 2) == 0xFFFF);
    let sub = ReadScope::new(&buf).read::<CmapSubtable<'_>>().unwrap();
    let mut seen = [(0u32, 0u16); 4];
    let mut n = 0usize;
    let res = sub.mappings_fn(|ch, g| {
        if n < 4 {
            seen[n] = (ch, g);
        }
        n += 1;
    });
    if res.is_ok() {
        assert!(n == (e0 - s0) as usize + 2);
        let k: usize = kani::any();
        kani::assume(k < n && k < 4);
        assert!(sub.map_glyph(seen[k].0) == Ok(Some(seen[k].1)));
        let ch: u32 = kani::any();
        if let Ok(Some(g)) = sub.map_glyph(ch) {
            let mut found = false;
            let mut j = 0;
            while j < 4 {
                if j < n && seen[j] == (ch, g) {
                    found = true;
                }
                j += 1;
            }
            assert!(found);
        }
        kani::cover!(n == 3, "three mappings enumerated");
    }
}

// ---------------------------------------------------------------------------
// formats 0, 6, 10, 12
// ---------------------------------------------------------------------------

/// Format 0: byte encoding table.
// @bound the 262-byte format 0 subtable, all 256 glyph bytes symbolic; ch any u32
#[kani::proof]
#[kani::unwind(8)]
fn c06_format0() {
    let mut buf: [u8; 262] = kani::any();
    put16(&mut buf, 0, 0);
    put16(&mut buf, 2, 262);
    let ch: u32 = kani::any();
    let sub = ReadScope::new(&buf).read::<CmapSubtable<'_>>().unwrap();
    let got = sub.map_glyph(ch);
    if ch < 256 {
        assert!(got == Ok(Some(buf[6 + ch as usize] as u16)));
        kani::cover!(ch == 255, "last code");
    } else {
        assert!(got == Ok(None));
    }
}

/// Format 6: trimmed table mapping.
// @bound format 6 subtable with 3 entries, firstCode and glyph ids symbolic; ch any u32
#[kani::proof]
#[kani::unwind(8)]
fn c06_format6() {
    let mut buf: [u8; 16] = kani::any();
    put16(&mut buf, 0, 6);
    put16(&mut buf, 8, 3);
    let first = be16(&buf, 6) as u32;
    let ch: u32 = kani::any();
    let sub = ReadScope::new(&buf).read::<CmapSubtable<'_>>().unwrap();
    let got = sub.map_glyph(ch);
    if ch >= first && ch - first < 3 {
        assert!(got == Ok(Some(be16(&buf, 10 + 2 * (ch - first) as usize))));
        kani::cover!(ch - first == 2, "last entry");
    } else {
        assert!(got == Ok(None));
        kani::cover!(ch == first + 3, "one past the end");
    }
    // enumeration agrees with lookup
    let mut n = 0u32;
    let mut ok = true;
    let r = sub.mappings_fn(|c, g| {
        if c != first + n || g != be16(&buf, 10 + 2 * n as usize) {
            ok = false;
        }
        n += 1;
    });
    assert!(r.is_ok() && ok && n == 3);
}

/// Format 10: trimmed array (32-bit start code).
// @bound format 10 subtable with 3 entries, startCharCode any u32, glyph ids symbolic; ch any u32
#[kani::proof]
#[kani::unwind(8)]
fn c06_format10() {
    let mut buf: [u8; 26] = kani::any();
    put16(&mut buf, 0, 10);
    put16(&mut buf, 2, 0);
    put32(&mut buf, 16, 3);
    let start = be32(&buf, 12);
    let ch: u32 = kani::any();
    let sub = ReadScope::new(&buf).read::<CmapSubtable<'_>>().unwrap();
    let got = sub.map_glyph(ch);
    if ch >= start && ch - start < 3 {
        assert!(got == Ok(Some(be16(&buf, 20 + 2 * (ch - start) as usize))));
        kani::cover!(ch - start == 2, "last entry");
    } else {
        assert!(got == Ok(None));
    }
}

/// Format 10 enumeration: pairs are (start + k, glyph k); a table whose codes would
/// run past u32::MAX is an error, not a panic.
// @bound format 10 subtable with 3 entries, startCharCode any u32
// @release
#[kani::proof]
#[kani::unwind(8)]
fn c06_format10_mappings() {
    let mut buf: [u8; 26] = kani::any();
    put16(&mut buf, 0, 10);
    put16(&mut buf, 2, 0);
    put32(&mut buf, 16, 3);
    let start = be32(&buf, 12);
    let sub = ReadScope::new(&buf).read::<CmapSubtable<'_>>().unwrap();
    let mut n = 0u32;
    let mut ok = true;
    let r = sub.mappings_fn(|c, g| {
        if c != start.wrapping_add(n) || g != be16(&buf, 20 + 2 * n as usize) {
            ok = false;
        }
        n += 1;
    });
    if start <= u32::MAX - 2 {
        assert!(r.is_ok() && ok && n == 3);
        kani::cover!(true, "enumerated");
    } else {
        assert!(ok);
        kani::cover!(r.is_err(), "overflowing table rejected");
    }
}

macro_rules! format12_harness {
    ($name:ident, $ngroups:expr) => {
        #[kani::proof]
        #[kani::unwind(8)]
        fn $name() {
            const NG: usize = $ngroups;
            const TOTAL: usize = 16 + 12 * NG;
            let mut buf: [u8; TOTAL] = kani::any();
            put16(&mut buf, 0, 12);
            put16(&mut buf, 2, 0);
            put32(&mut buf, 12, NG as u32);
            // groups sorted by start code and disjoint, start <= end
            let mut i = 0;
            while i < NG {
                let s = be32(&buf, 16 + 12 * i);
                let e = be32(&buf, 16 + 12 * i + 4);
                kani::assume(s <= e);
                if i + 1 < NG {
                    kani::assume(e < be32(&buf, 16 + 12 * (i + 1)));
                }
                i += 1;
            }
            let ch: u32 = kani::any();
            let sub = ReadScope::new(&buf).read::<CmapSubtable<'_>>().unwrap();
            let got = sub.map_glyph(ch);
            let mut expected: Option<u64> = None;
            let mut i = 0;
            while i < NG {
                let s = be32(&buf, 16 + 12 * i);
                let e = be32(&buf, 16 + 12 * i + 4);
                let g = be32(&buf, 16 + 12 * i + 8);
                if s <= ch && ch <= e {
                    expected = Some(g as u64 + (ch - s) as u64);
                }
                i += 1;
            }
            match expected {
                None => assert!(got == Ok(None)),
                Some(g) if g <= 0xFFFF => {
                    assert!(got == Ok(Some(g as u16)));
                    kani::cover!(g > 0, "mapped");
                }
                // a glyph id that does not fit 16 bits cannot be reported as a glyph
                Some(_) => {
                    assert!(got.is_err());
                    kani::cover!(true, "glyph id out of range rejected");
                }
            }
        }
    };
}

// @bound format 12 subtable with 2 sorted disjoint groups, all values symbolic (full u32); ch any u32
// @release
format12_harness!(c06_format12_2groups, 2);
// @tier thorough
// @bound format 12 subtable with 3 sorted disjoint groups; ch any u32
format12_harness!(c06_format12_3groups, 3);

/// Format 12 enumeration agrees with lookup (group widths <= 2 so that the walk is bounded).
// @bound format 12, 2 groups of width <= 2
#[kani::proof]
#[kani::unwind(8)]
fn c06_format12_mappings_consistent() {
    const TOTAL: usize = 40;
    let mut buf: [u8; TOTAL] = kani::any();
    put16(&mut buf, 0, 12);
    put16(&mut buf, 2, 0);
    put32(&mut buf, 12, 2);
    let s0 = be32(&buf, 16);
    let e0 = be32(&buf, 20);
    let s1 = be32(&buf, 28);
    let e1 = be32(&buf, 32);
    kani::assume(s0 <= e0 && e0 < s1 && s1 <= e1);
    kani::assume(e0 - s0 <= 1 && e1 - s1 <= 1);
    let sub = ReadScope::new(&buf).read::<CmapSubtable<'_>>().unwrap();
    let mut seen = [(0u32, 0u16); 4];
    let mut n = 0usize;
    let r = sub.mappings_fn(|c, g| {
        if n < 4 {
            seen[n] = (c, g);
        }
        n += 1;
    });
    if r.is_ok() {
        assert!(n as u64 == (e0 - s0) as u64 + (e1 - s1) as u64 + 2);
        let k: usize = kani::any();
        kani::assume(k < n);
        assert!(sub.map_glyph(seen[k].0) == Ok(Some(seen[k].1)));
        kani::cover!(n == 4, "four mappings");
    }
}

// ---------------------------------------------------------------------------
// format 2 (high-byte mapping through table)
// ---------------------------------------------------------------------------

/// Layout of the format 2 subtable used below: 6-byte header, 256 subHeaderKeys, three 8-byte
/// subheaders, four glyphIndexArray entries; everything but the header symbolic.
const F2_KEYS: usize = 6;
const F2_SUBHEADERS: usize = F2_KEYS + 512;
const F2_GLYPHS: usize = F2_SUBHEADERS + 3 * 8;
const F2_TOTAL: usize = F2_GLYPHS + 4 * 2;

/// OpenType cmap format 2, for a code that is valid in the encoding: a single byte `c` whose key
/// is 0 uses subheader 0 with `c` as the low byte; a two-byte code whose high byte has a non-zero
/// key k uses subheader k/8. `Err(())`: the subheader's glyph index sub-array does not fit in the
/// table. `Ok(0)`: low byte outside [firstCode, firstCode + entryCount) or a 0 array entry.
fn f2_reference(buf: &[u8], k: usize, low: u8) -> Result<u16, ()> {
    let sh = F2_SUBHEADERS + 8 * k;
    let first = be16(buf, sh) as u32;
    let count = be16(buf, sh + 2) as u32;
    let delta = be16(buf, sh + 4);
    let ro = be16(buf, sh + 6) as usize;
    let low = low as u32;
    if low < first || low >= first + count {
        return Ok(0);
    }
    // address of the entry for firstCode = &idRangeOffset + idRangeOffset
    let base = sh + 6 + ro;
    if base + 2 * count as usize > buf.len() {
        return Err(());
    }
    let g = be16(buf, base + 2 * (low - first) as usize);
    Ok(if g == 0 { 0 } else { g.wrapping_add(delta) })
}

/// Format 2: single-byte codes go through subheader 0, two-byte codes through the subheader
/// their high byte selects; idDelta is added modulo 65536 to non-zero entries only. The subtable
/// value is assembled from the real readers over the buffer (the parse step, whose 256-entry
/// scan for the largest key needs a larger unwinding bound, is `c06_format2_parse`).
// @bound format 2 subtable of 550 bytes, 3 subheaders and 4 glyphIndexArray entries: all 256 subHeaderKeys, the subheaders (firstCode, entryCount, idDelta, idRangeOffset) and the array symbolic; ch any u32 that is a valid code of that encoding (single byte whose key is 0, or two bytes whose lead byte has a key in {8, 16}); keys selecting a missing subheader must give an error; codes above 0xFFFF, lead bytes on their own and two-byte codes with a non-lead high byte are only checked for absence of panics
#[kani::proof]
#[kani::unwind(8)]
fn c06_format2() {
    let mut buf: [u8; F2_TOTAL] = kani::any();
    put16(&mut buf, 0, 2);
    put16(&mut buf, 2, F2_TOTAL as u16);
    let ch: u32 = kani::any();
    let scope = ReadScope::new(&buf);
    let mut ctxt = scope.offset(F2_KEYS).ctxt();
    let sub_header_keys = ctxt.read_array::<U16Be>(256).unwrap();
    let sub_headers_scope = ctxt.scope();
    let sub_headers = ctxt.read_array::<SubHeader>(3).unwrap();
    let sub = CmapSubtable::Format2 { language: 0, sub_header_keys, sub_headers, sub_headers_scope };
    let got = sub.map_glyph(ch);
    if ch > 0xFFFF {
        return;
    }
    let (high, low) = ((ch >> 8) as usize, ch as u8);
    let key = if high == 0 {
        if be16(&buf, F2_KEYS + 2 * low as usize) != 0 {
            return; // a lead byte on its own is not a code
        }
        0
    } else {
        let key = be16(&buf, F2_KEYS + 2 * high);
        if key == 0 {
            return; // second byte after a single-byte code: not a code of this encoding
        }
        key
    };
    kani::assume(key % 8 == 0);
    let k = (key / 8) as usize;
    if k >= 3 {
        assert!(got.is_err(), "missing subheader");
        return;
    }
    match f2_reference(&buf, k, low) {
        Ok(g) => {
            assert!(got == Ok(Some(g)), "format 2 lookup");
            kani::cover!(k == 2 && g != 0, "two-byte code mapped through subheader 2");
            kani::cover!(k == 0 && g != 0, "single-byte code mapped");
        }
        Err(()) => {
            assert!(got.is_err(), "sub-array outside the table");
            kani::cover!(true, "sub-array outside the table");
        }
    }
}

/// Format 2 enumeration lists exactly the pairs single lookups return: every single-byte code
/// inside subheader 0's window, and for a lead byte every low byte of its subheader's window,
/// each with the glyph the format assigns (compared with the specification's arithmetic, which
/// `c06_format2` shows `map_glyph` to follow).
// @tier thorough
// @flags --no-memory-safety-checks --no-assertion-reach-checks
// @bound format 2 subtable of 550 bytes: keys concrete (0x81 is the only lead byte, subheader 1), subheader 0 with the window firstCode 0x20 / entryCount 3, subheader 1 with entryCount 2 and symbolic firstCode <= 254; idDelta and idRangeOffset of both and the 4 glyphIndexArray entries symbolic
#[kani::proof]
#[kani::unwind(258)]
fn c06_format2_mappings_consistent() {
    let mut buf = [0u8; F2_TOTAL];
    put16(&mut buf, 0, 2);
    put16(&mut buf, 2, F2_TOTAL as u16);
    put16(&mut buf, F2_KEYS + 2 * 0x81, 8);
    let tail: [u8; F2_TOTAL - F2_SUBHEADERS] = kani::any();
    let mut i = 0;
    while i < tail.len() {
        buf[F2_SUBHEADERS + i] = tail[i];
        i += 1;
    }
    put16(&mut buf, F2_SUBHEADERS, 0x20); // firstCode of subheader 0
    put16(&mut buf, F2_SUBHEADERS + 2, 3); // entryCount of subheader 0
    put16(&mut buf, F2_SUBHEADERS + 8 + 2, 2); // entryCount of subheader 1
    let first1 = be16(&buf, F2_SUBHEADERS + 8) as u32;
    kani::assume(first1 <= 254);
    let scope = ReadScope::new(&buf);
    let mut ctxt = scope.offset(F2_KEYS).ctxt();
    let sub_header_keys = ctxt.read_array::<U16Be>(256).unwrap();
    let sub_headers_scope = ctxt.scope();
    let sub_headers = ctxt.read_array::<SubHeader>(2).unwrap();
    let sub = CmapSubtable::Format2 { language: 0, sub_header_keys, sub_headers, sub_headers_scope };
    let mut n = 0u32;
    let mut ok = true;
    let r = sub.mappings_fn(|code, glyph| {
        let k = if code < 0x100 { 0 } else { 1 };
        if code >= 0x100 && code >> 8 != 0x81 {
            ok = false;
        }
        if f2_reference(&buf, k, code as u8) != Ok(glyph) {
            ok = false;
        }
        n += 1;
    });
    let fits = |k: usize, count: usize| {
        let ro = be16(&buf, F2_SUBHEADERS + 8 * k + 6) as usize;
        F2_SUBHEADERS + 8 * k + 6 + ro + 2 * count <= F2_TOTAL
    };
    if r.is_ok() {
        assert!(ok, "an enumerated pair differs from the single lookup");
        assert!(n == 3 + 2, "number of pairs enumerated");
        kani::cover!(true, "enumerated");
    } else {
        // only a sub-array outside the table makes the enumeration fail
        assert!(!fits(0, 3) || !fits(1, 2), "enumeration failed on a well-formed table");
        kani::cover!(true, "sub-array outside the table");
    }
}

fn f2_parse_check(buf: &[u8; F2_TOTAL], max: u16) {
    match ReadScope::new(buf).read::<CmapSubtable<'_>>() {
        Ok(CmapSubtable::Format2 { sub_header_keys, sub_headers, sub_headers_scope, .. }) => {
            assert!(sub_header_keys.len() == 256);
            assert!(sub_headers.len() == (max / 8) as usize + 1);
            assert!(sub_headers_scope.data().len() == F2_TOTAL - F2_SUBHEADERS);
            assert!(sub_header_keys.get_item(0x81) == Some(buf[F2_KEYS + 2 * 0x81 + 1] as u16));
            kani::cover!(max == 16, "three subheaders");
            kani::cover!(max == 0, "one subheader");
        }
        _ => assert!(false, "format 2 subtable must parse"),
    }
}

/// Format 2 parse: 256 keys, then as many subheaders as the largest key / 8 + 1, the
/// subheader scope starting right after the keys.
// @bound format 2 subtable of 550 bytes; the keys of bytes 0x00, 0x81 and 0xFF symbolic in {0, 8, 16}, all other keys 0
#[kani::proof]
#[kani::unwind(258)]
fn c06_format2_parse() {
    let mut buf = [0u8; F2_TOTAL];
    put16(&mut buf, 0, 2);
    put16(&mut buf, 2, F2_TOTAL as u16);
    let tail: [u8; F2_TOTAL - F2_SUBHEADERS] = kani::any();
    let mut i = 0;
    while i < tail.len() {
        buf[F2_SUBHEADERS + i] = tail[i];
        i += 1;
    }
    let mut max = 0u16;
    for pos in [0x00usize, 0x81, 0xFF] {
        let lo: u8 = kani::any();
        kani::assume(lo == 0 || lo == 8 || lo == 16);
        buf[F2_KEYS + 2 * pos + 1] = lo;
        if lo as u16 > max {
            max = lo as u16;
        }
    }
    f2_parse_check(&buf, max);
}

/// As `c06_format2_parse` with every key symbolic.
// @tier thorough
// @bound format 2 subtable of 550 bytes with all 256 subHeaderKeys symbolic in {0, 8, 16}
#[kani::proof]
#[kani::unwind(258)]
fn c06_format2_parse_all_keys() {
    let mut buf: [u8; F2_TOTAL] = kani::any();
    put16(&mut buf, 0, 2);
    put16(&mut buf, 2, F2_TOTAL as u16);
    let mut max = 0u16;
    let mut i = 0;
    while i < 256 {
        buf[F2_KEYS + 2 * i] = 0;
        let lo: u8 = kani::any();
        kani::assume(lo == 0 || lo == 8 || lo == 16);
        buf[F2_KEYS + 2 * i + 1] = lo;
        if lo as u16 > max {
            max = lo as u16;
        }
        i += 1;
    }
    f2_parse_check(&buf, max);
}

// ---------------------------------------------------------------------------
// subtable preference order
// ---------------------------------------------------------------------------

fn rank(p: u16, e: u16) -> u8 {
    // documented preference: Windows UCS-4, Windows BMP, Unicode platform UCS-4 (0,4),
    // any Unicode platform, Windows Symbol, Mac Roman, Windows Big5
    match (p, e) {
        (3, 10) => 0,
        (3, 1) => 1,
        (0, 4) => 2,
        (0, _) => 3,
        (3, 0) => 4,
        (1, 0) => 5,
        (3, 4) => 6,
        _ => 7,
    }
}

/// The chosen encoding record is the first record of the best rank present.
// @bound cmap header with 3 encoding records, platform/encoding/offset all symbolic
#[kani::proof]
#[kani::unwind(8)]
fn c06_subtable_preference() {
    let mut buf: [u8; 28] = kani::any();
    put16(&mut buf, 0, 0);
    put16(&mut buf, 2, 3);
    let cmap = ReadScope::new(&buf).read::<Cmap<'_>>().unwrap();
    let got = find_good_cmap_subtable(&cmap);
    let mut best: Option<(u8, usize)> = None;
    let mut i = 0;
    while i < 3 {
        let r = rank(be16(&buf, 4 + 8 * i), be16(&buf, 6 + 8 * i));
        if r < 7 {
            match best {
                Some((br, _)) if br <= r => {}
                _ => best = Some((r, i)),
            }
        }
        i += 1;
    }
    match (got, best) {
        (None, None) => kani::cover!(true, "no usable subtable"),
        (Some((enc, rec)), Some((r, i))) => {
            assert!(rec.platform_id.0 == be16(&buf, 4 + 8 * i));
            assert!(rec.encoding_id.0 == be16(&buf, 6 + 8 * i));
            assert!(rec.offset == be32(&buf, 8 + 8 * i));
            let expect = match r {
                0..=3 => Encoding::Unicode,
                4 => Encoding::Symbol,
                5 => Encoding::AppleRoman,
                _ => Encoding::Big5,
            };
            assert!(enc == expect);
            kani::cover!(r == 4 && i == 2, "symbol table chosen last");
        }
        _ => assert!(false),
    }
}

// ---------------------------------------------------------------------------
// Mac Roman
// ---------------------------------------------------------------------------

/// Every byte maps to a char that maps back to the byte.
// @bound all 256 bytes
#[kani::proof]
fn c06_macroman_byte_roundtrip() {
    let b: u8 = kani::any();
    // 15 Mac Roman bytes (math symbols, the Apple logo) have no mapping in either
    // table; for those there is nothing to invert
    if let Some(c) = macroman_to_char(b) {
        assert!(char_to_macroman(c) == Some(b));
        kani::cover!(b >= 128, "upper half");
    }
    assert!(b >= 128 || macroman_to_char(b) == Some(b as char));
}

/// Every char with a Mac Roman code maps back to itself.
// @bound all chars (0..=0x10FFFF without surrogates)
#[kani::proof]
fn c06_macroman_char_roundtrip() {
    let c: char = kani::any();
    if let Some(b) = char_to_macroman(c) {
        assert!(macroman_to_char(b) == Some(c));
        kani::cover!(b >= 128, "upper half");
    }
}

// ---------------------------------------------------------------------------
// encoding dispatch in Font::lookup_glyph_index: Windows Symbol
// ---------------------------------------------------------------------------

/// A font whose only cmap subtable is Windows Symbol (3,0): characters U+F020..=U+F0FF
/// (the PUA range symbol fonts are encoded in) and their single-byte aliases
/// U+0020..=U+00FF map to the same glyph, the one the subtable assigns to the low byte
/// (no OS/2 table, so usFirstCharIndex defaults to 0x20).
// @bound Font over the 5-table provider with a (3,0) format 4 cmap mapping 0x20..=0xFF to glyph code+3; character any char in U+0020..=U+00FF or U+F000..=U+F0FF
#[kani::proof]
#[kani::unwind(8)]
fn c06_symbol_encoding_dispatch() {
    use allsorts::font::{Font, MatchingPresentation};
    let mut p = provider(true, 5);
    // rewrite the cmap: encoding (3,0), segment [0x20..0xFF] with idDelta 3
    put16(&mut p.cmap, 6, 0);
    let s = 12;
    put16(&mut p.cmap, s + 14, 0x00FF);
    put16(&mut p.cmap, s + 20, 0x0020);
    put16(&mut p.cmap, s + 24, 3);
    let mut font = Font::new(p).unwrap();
    assert!(font.cmap_subtable_encoding == Encoding::Symbol);
    let low: u8 = kani::any();
    let pua: bool = kani::any();
    let cp = if pua { 0xF000u32 + low as u32 } else { low as u32 };
    kani::assume(pua || low >= 0x20);
    let ch = char::from_u32(cp).unwrap();
    let (gid, _) = font.lookup_glyph_index(ch, MatchingPresentation::NotRequired, None);
    let expect = if low >= 0x20 { low as u16 + 3 } else { 0 };
    assert!(gid == expect);
    kani::cover!(pua && low == 0xFF, "U+F0FF");
    std::mem::forget(font);
}

/// Mac Roman (1,0) subtable: a character is looked up by its Mac Roman code; characters
/// without one fall back to the legacy symbol rule.
// @tier thorough
// @bound Font over the 5-table provider with a (1,0) format 4 cmap mapping 0x20..=0xFF to glyph code+3; character any char
#[kani::proof]
#[kani::unwind(8)]
fn c06_macroman_encoding_dispatch() {
    use allsorts::font::{Font, MatchingPresentation};
    let mut p = provider(true, 5);
    put16(&mut p.cmap, 4, 1); // platform Macintosh
    put16(&mut p.cmap, 6, 0); // encoding Roman
    let s = 12;
    put16(&mut p.cmap, s + 14, 0x00FF);
    put16(&mut p.cmap, s + 20, 0x0020);
    put16(&mut p.cmap, s + 24, 3);
    let mut font = Font::new(p).unwrap();
    assert!(font.cmap_subtable_encoding == Encoding::AppleRoman);
    let ch: char = kani::any();
    let (gid, _) = font.lookup_glyph_index(ch, MatchingPresentation::NotRequired, None);
    let code: u32 = match char_to_macroman(ch) {
        Some(b) => b as u32,
        None => {
            let c = ch as u32;
            if c >= 0xF000 && c <= 0xF0FF {
                c - 0xF000
            } else {
                c
            }
        }
    };
    let expect = if code >= 0x20 && code <= 0xFF { code as u16 + 3 } else { 0 };
    assert!(gid == expect);
    kani::cover!(ch == '\u{2020}', "dagger maps through Mac Roman 0xA0");
    std::mem::forget(font);
}
