//! C03 - results depend only on the arguments, not on earlier calls.
//!
//! Two-call histories on one `Font` against the same probe on a freshly built `Font`
//! from the same tables (a 2-safety query closed over the whole argument domain of the
//! earlier call). One inductive step per cache slot: a slot stores what the FIRST call
//! computed, so "second call differs from a fresh font" for some argument pair is
//! exactly "the key omits an argument"; longer histories reduce to it.
//!
//! The `Font` is built on a custom `FontTableProvider` that serves five small tables
//! (cmap format 4 mapping U+25CC, head, maxp, hhea, hmtx) and optionally claims a glyf
//! table, so `Font::new` runs the real loading code without any file parsing pipeline.
//!
//! @funcs Font::new, Font::lookup_glyph_index, Font::map_unicode_to_glyph, Font::lookup_glyph_index_with_variation, Font::resolve_default_presentation, font::GlyphCache::{get,put}, LazyLoad::get_or_load, Font::{horizontal_advance, vertical_advance, vhea_table, has_embedded_images, has_glyph_outlines}, font::charmap_info, find_good_cmap_subtable
//! @out the layout caches (LayoutCacheData: supported_features and lookups_index are std HashMaps - the missing variation tuple in the lookup-list key is visible by reading only), ReadCache, Font::shape / map_glyphs histories, byte-identical output of subset / instance across runs (HashMap iteration order is not modelled)

use crate::util::*;
use allsorts::font::{Font, MatchingPresentation};
use allsorts::unicode::VariationSelector;

use crate::util::provider;

fn any_presentation() -> MatchingPresentation {
    if kani::any() {
        MatchingPresentation::Required
    } else {
        MatchingPresentation::NotRequired
    }
}

fn any_selector() -> Option<VariationSelector> {
    let k: u8 = kani::any();
    match k % 5 {
        0 => None,
        1 => Some(VariationSelector::VS01),
        2 => Some(VariationSelector::VS15),
        3 => Some(VariationSelector::VS16),
        _ => Some(VariationSelector::VS02),
    }
}

const DOTTED_CIRCLE: char = '\u{25CC}';

macro_rules! glyph_cache_history {
    ($name:ident, $glyf:expr, $mp:expr, $vs:expr) => {
        #[kani::proof]
        #[kani::unwind(8)]
        fn $name() {
            let mut used = Font::new(provider($glyf, 5)).unwrap();
            let mut fresh = Font::new(provider($glyf, 5)).unwrap();
            // an arbitrary earlier query for the dotted circle
            let _ = used.lookup_glyph_index(DOTTED_CIRCLE, any_presentation(), any_selector());
            // the probe
            let a = used.lookup_glyph_index(DOTTED_CIRCLE, $mp, $vs);
            let b = fresh.lookup_glyph_index(DOTTED_CIRCLE, $mp, $vs);
            assert!(a.0 == b.0, "glyph index of U+25CC depends on an earlier lookup");
            assert!(a.1 == b.1, "variation selector reported for U+25CC depends on an earlier lookup");
            kani::cover!(b.0 == 5, "dotted circle mapped");
            std::mem::forget(used);
            std::mem::forget(fresh);
        }
    };
}

// @tier thorough
// @bound font with a glyf table; probe lookup_glyph_index(U+25CC, NotRequired, None) after one earlier lookup of U+25CC with any (presentation, selector in {None, VS01, VS02, VS15, VS16})
glyph_cache_history!(c03_dotted_circle_history_plain_probe, true, MatchingPresentation::NotRequired, None);
// @tier thorough
// @bound same history, probe (Required, VS16) on a font without embedded images
glyph_cache_history!(c03_dotted_circle_history_emoji_probe, true, MatchingPresentation::Required, Some(VariationSelector::VS16));
// @bound font WITHOUT outlines, probe (Required, VS15)
glyph_cache_history!(c03_dotted_circle_history_text_probe_no_outlines, false, MatchingPresentation::Required, Some(VariationSelector::VS15));

/// The lazily loaded slots that need no layout cache: advances, vhea, image presence.
// @bound one arbitrary earlier accessor call (horizontal_advance / vertical_advance / vhea_table / has_embedded_images with any glyph id) then a probe of each accessor, against a fresh font
#[kani::proof]
#[kani::unwind(8)]
fn c03_lazy_slots_history() {
    let mut used = Font::new(provider(true, 5)).unwrap();
    let mut fresh = Font::new(provider(true, 5)).unwrap();
    let g0: u16 = kani::any();
    let which: u8 = kani::any();
    match which % 4 {
        0 => {
            let _ = used.horizontal_advance(g0);
        }
        1 => {
            let _ = used.vertical_advance(g0);
        }
        2 => {
            let _ = used.vhea_table();
        }
        _ => {
            let _ = used.has_embedded_images();
        }
    }
    let g: u16 = kani::any();
    assert!(used.horizontal_advance(g) == fresh.horizontal_advance(g));
    assert!(used.vertical_advance(g) == fresh.vertical_advance(g));
    assert!(used.has_embedded_images() == fresh.has_embedded_images());
    assert!(used.vhea_table().map(|o| o.is_some()) == fresh.vhea_table().map(|o| o.is_some()));
    kani::cover!(fresh.horizontal_advance(g).is_some(), "an advance");
    std::mem::forget(used);
    std::mem::forget(fresh);
}

/// A lazily loaded table that fails to parse fails on every query, not only on the first
/// (an error must not be cached as "table absent").
// @bound font whose vhea table is 4 bytes long (unparsable); vhea_table() / vertical_advance(g) after one earlier vhea_table() or vertical_advance() call, against a fresh font; glyph id any u16
#[kani::proof]
#[kani::unwind(8)]
fn c03_failed_load_is_not_cached() {
    let mut p1 = provider(true, 5);
    p1.corrupt_vhea = true;
    let mut p2 = provider(true, 5);
    p2.corrupt_vhea = true;
    let mut used = Font::new(p1).unwrap();
    let mut fresh = Font::new(p2).unwrap();
    if kani::any() {
        let _ = used.vhea_table();
    } else {
        let _ = used.vertical_advance(kani::any());
    }
    let a = used.vhea_table();
    let b = fresh.vhea_table();
    assert!(a.is_err() == b.is_err(), "a failed table load is reported differently on a later query");
    assert!(b.is_err());
    let g: u16 = kani::any();
    assert!(used.vertical_advance(g) == fresh.vertical_advance(g));
    kani::cover!(true, "probed");
    std::mem::forget(used);
    std::mem::forget(fresh);
}
