//! C15 - reading is the inverse of writing.
//!
//! Two shapes of obligation: (a) bytes -> read -> write == bytes for every byte
//! string that parses (byte-exact, up to the documented normalisations), which
//! also gives read(write(v)) == v for every v in the image of the reader; and
//! (b) value -> write -> read == value where the value type can be built directly.
//!
//! @funcs WriteBuffer::{write_bytes, write_zeros, placeholder, reserve, write_placeholder, write_placeholder_dep}, WriteSlice::write_bytes, HeadTable::{read,write}, HheaTable::{read,write}, MaxpTable::{read,write}, NameTable::{read,write}, NameRecord, LangTagRecord, CvtTable::{read_dep,write}, IndexToLocFormat, TableRecord, LongHorMetric, cff::Operand::write, cff::Op::read (hook H2), cff::serialise_offset_array (hook H5), cff::offset_size, loca::owned::LocaTable::write_dep, LocaTable::read_dep, post::Header::{read,write}
//! @out OS/2 (78-byte table: CBMC out of memory at 16 GB - 35 small writes into a growing Vec), owned cmap subtable write -> read (out of memory at 10 GB), CFF/CFF2 whole-font round trips, DICTs, INDEX writer, FDSelect, charsets (parser control flow branches on symbolic bytes into Vec arms: out of reach), glyf simple-glyph reader (2 points: out of memory at 12 GB), name tables with more than 2 records, HmtxTable::write (3 glyphs: CBMC out of memory at the 10 GB cap - ReadArrayCow<LongHorMetric> iteration into a growing Vec; its reader is covered in C01/C11)

use crate::util::*;
use allsorts::binary::read::{ReadScope, ReadUnchecked};
use allsorts::binary::write::{WriteBinary, WriteBinaryDep, WriteBuffer, WriteContext};
use allsorts::binary::{I16Be, U16Be, U32Be};
use allsorts::cff::Operand;
use allsorts::error::{ParseError, WriteError};
use allsorts::tables::{
    CvtTable, HeadTable, HheaTable, HmtxTable, IndexToLocFormat, LongHorMetric, MaxpTable, NameTable,
    TableRecord,
};

fn same(a: &[u8], b: &[u8]) -> bool {
    if a.len() != b.len() {
        return false;
    }
    let mut i = 0;
    let mut ok = true;
    while i < a.len() {
        if a[i] != b[i] {
            ok = false;
        }
        i += 1;
    }
    ok
}

/// head: byte-exact round trip (checkSumAdjustment goes through the returned
/// placeholder; reserved macStyle bits 7-15 are dropped by the reader).
// @bound all 54-byte head tables (magic fixed, indexToLocFormat 0 or 1), every other field symbolic
#[kani::proof]
#[kani::unwind(56)]
fn c15_head_roundtrip() {
    let mut buf: [u8; 54] = kani::any();
    put32(&mut buf, 12, 0x5F0F_3CF5);
    let loc: u8 = kani::any();
    kani::assume(loc <= 1);
    put16(&mut buf, 50, loc as u16);
    let head = ReadScope::new(&buf).read::<HeadTable>().unwrap();
    let mut out = WriteBuffer::new();
    let placeholder = HeadTable::write(&mut out, &head).unwrap();
    assert!(out.len() == 54);
    // the adjustment field is left zero for the caller
    assert!(be32(out.bytes(), 8) == 0);
    out.write_placeholder(placeholder, head.check_sum_adjustment).unwrap();
    let mut expect = buf;
    let mac = be16(&buf, 44) & 0x007F;
    put16(&mut expect, 44, mac);
    assert!(same(out.bytes(), &expect));
    // value level: parsing the output gives the same table
    let again = ReadScope::new(out.bytes()).read::<HeadTable>().unwrap();
    assert!(again == head);
    kani::cover!(loc == 1 && mac != 0, "long loca, styled");
    std::mem::forget(out);
}

/// hhea: byte-exact except the minor version and reserved words, which the writer normalises to 0.
// @bound all 36-byte hhea tables that parse (major version 1, metricDataFormat 0)
#[kani::proof]
#[kani::unwind(38)]
fn c15_hhea_roundtrip() {
    let mut buf: [u8; 36] = kani::any();
    put16(&mut buf, 0, 1);
    put16(&mut buf, 32, 0);
    let hhea = ReadScope::new(&buf).read::<HheaTable>().unwrap();
    let mut out = WriteBuffer::new();
    HheaTable::write(&mut out, &hhea).unwrap();
    let mut expect = buf;
    put16(&mut expect, 2, 0);
    put16(&mut expect, 24, 0);
    put16(&mut expect, 26, 0);
    put16(&mut expect, 28, 0);
    put16(&mut expect, 30, 0);
    assert!(same(out.bytes(), &expect));
    let again = ReadScope::new(out.bytes()).read::<HheaTable>().unwrap();
    assert!(again == hhea);
    kani::cover!(hhea.num_h_metrics == 513, "numberOfHMetrics survives");
    std::mem::forget(out);
}

/// maxp version 1.0 (32 bytes) and 0.5 (6 bytes).
// @bound all maxp tables of version 1.0 and of any other version value (written back as 0.5)
#[kani::proof]
#[kani::unwind(34)]
fn c15_maxp_roundtrip() {
    let buf: [u8; 32] = kani::any();
    let version = be32(&buf, 0);
    let maxp = ReadScope::new(&buf).read::<MaxpTable>().unwrap();
    let mut out = WriteBuffer::new();
    MaxpTable::write(&mut out, &maxp).unwrap();
    if version == 0x0001_0000 {
        assert!(same(out.bytes(), &buf));
        kani::cover!(true, "version 1.0");
    } else {
        assert!(out.len() == 6);
        assert!(be32(out.bytes(), 0) == 0x0000_5000);
        assert!(be16(out.bytes(), 4) == be16(&buf, 4));
        kani::cover!(version == 0x0000_5000, "version 0.5");
    }
    let again = ReadScope::new(out.bytes()).read::<MaxpTable>().unwrap();
    assert!(again == maxp);
    std::mem::forget(out);
}

macro_rules! name_harness {
    ($name:ident, $format:expr, $total:expr) => {
        #[kani::proof]
        #[kani::unwind(44)]
        fn $name() {
            const FORMAT: u16 = $format;
            const TOTAL: usize = $total;
            let mut buf: [u8; TOTAL] = kani::any();
            put16(&mut buf, 0, FORMAT);
            put16(&mut buf, 2, 2);
            let records_end = 6 + 24 + if FORMAT == 1 { 2 + 4 } else { 0 };
            if FORMAT == 1 {
                put16(&mut buf, 30, 1);
            }
            // canonical layout: the string storage follows the records
            put16(&mut buf, 4, records_end as u16);
            let name = ReadScope::new(&buf).read::<NameTable<'_>>().unwrap();
            assert!(name.name_records.len() == 2);
            assert!(name.string_storage.data().len() == TOTAL - records_end);
            let mut out = WriteBuffer::new();
            NameTable::write(&mut out, &name).unwrap();
            assert!(same(out.bytes(), &buf));
            kani::cover!(true, "written");
            std::mem::forget(out);
        }
    };
}

// @bound format 0 name table: 2 symbolic name records + 4 bytes of string storage (34 bytes)
name_harness!(c15_name_format0_roundtrip, 0, 34);
// @bound format 1 name table: 2 symbolic name records, 1 language-tag record, 4 bytes of string storage (40 bytes)
name_harness!(c15_name_format1_roundtrip, 1, 40);

/// cvt: n FWORDs; an odd length is refused.
// @bound cvt tables of 0..=3 values (length 0..=7 bytes)
#[kani::proof]
#[kani::unwind(9)]
fn c15_cvt_roundtrip() {
    let buf: [u8; 7] = kani::any();
    let len = any_len(7);
    match ReadScope::new(&buf[..len]).read_dep::<CvtTable<'_>>(len as u32) {
        Ok(cvt) => {
            assert!(len % 2 == 0);
            let mut out = WriteBuffer::new();
            CvtTable::write(&mut out, &cvt).unwrap();
            assert!(same(out.bytes(), &buf[..len]));
            kani::cover!(len == 6, "three values");
            std::mem::forget(out);
        }
        Err(e) => assert!(len % 2 == 1 && e == ParseError::BadValue),
    }
}

/// Small fixed-size records: value -> write -> read.
// @bound every TableRecord, LongHorMetric and IndexToLocFormat value
#[kani::proof]
#[kani::unwind(18)]
fn c15_fixed_records_roundtrip() {
    let rec = TableRecord { table_tag: kani::any(), checksum: kani::any(), offset: kani::any(), length: kani::any() };
    let mut out = WriteBuffer::new();
    TableRecord::write(&mut out, &rec).unwrap();
    assert!(out.len() == 16);
    let back = ReadScope::new(out.bytes()).read::<TableRecord>().unwrap();
    assert!(back == rec);

    let m = LongHorMetric { advance_width: kani::any(), lsb: kani::any() };
    let mut out2 = WriteBuffer::new();
    LongHorMetric::write(&mut out2, m).unwrap();
    assert!(out2.len() == 4);
    let back2 = ReadScope::new(out2.bytes()).read::<LongHorMetric>().unwrap();
    assert!(back2 == m);

    let long: bool = kani::any();
    let f = if long { IndexToLocFormat::Long } else { IndexToLocFormat::Short };
    let mut out3 = WriteBuffer::new();
    IndexToLocFormat::write(&mut out3, f).unwrap();
    assert!(ReadScope::new(out3.bytes()).read::<IndexToLocFormat>().unwrap() == f);
    kani::cover!(long, "long format");
    std::mem::forget(out);
    std::mem::forget(out2);
    std::mem::forget(out3);
}

// ---------------------------------------------------------------------------
// placeholders
// ---------------------------------------------------------------------------

/// Writing exactly the reserved size lands at the reserved offset and nowhere else.
// @bound buffer of 2 leading + 4 reserved + 2 trailing bytes, all values symbolic
#[kani::proof]
#[kani::unwind(10)]
fn c15_placeholder_exact_fill() {
    let pre: u16 = kani::any();
    let post: u16 = kani::any();
    let v: u32 = kani::any();
    let mut out = WriteBuffer::new();
    U16Be::write(&mut out, pre).unwrap();
    let ph = out.placeholder::<U32Be, u32>().unwrap();
    U16Be::write(&mut out, post).unwrap();
    assert!(be32(out.bytes(), 2) == 0);
    out.write_placeholder(ph, v).unwrap();
    assert!(out.len() == 8);
    assert!(be16(out.bytes(), 0) == pre);
    assert!(be32(out.bytes(), 2) == v);
    assert!(be16(out.bytes(), 6) == post);
    kani::cover!(true, "filled");
    std::mem::forget(out);
}

/// Filling a reservation that is too small - in one or in several writes - is refused
/// with PlaceholderMismatch and never touches bytes outside the reservation.
// @bound reservations of 0..=16 bytes filled with a 16-byte TableRecord (four 4-byte writes), 2 guard bytes on either side
#[kani::proof]
#[kani::unwind(20)]
fn c15_placeholder_overfill_is_refused() {
    let n = any_len(16);
    let rec = TableRecord { table_tag: kani::any(), checksum: kani::any(), offset: kani::any(), length: kani::any() };
    let mut out = WriteBuffer::new();
    U16Be::write(&mut out, 0xAAAAu16).unwrap();
    let ph = out.reserve::<TableRecord, TableRecord>(n).unwrap();
    U16Be::write(&mut out, 0xBBBBu16).unwrap();
    let r = out.write_placeholder(ph, &rec);
    if n == 16 {
        assert!(r.is_ok());
        let back = ReadScope::new(&out.bytes()[2..18]).read::<TableRecord>().unwrap();
        assert!(back == rec);
        kani::cover!(true, "exact");
    } else {
        assert!(matches!(r, Err(WriteError::PlaceholderMismatch)));
        kani::cover!(n == 8, "second half does not fit");
    }
    // guards intact
    assert!(be16(out.bytes(), 0) == 0xAAAA);
    assert!(be16(out.bytes(), 2 + n) == 0xBBBB);
    assert!(out.len() == n + 4);
    std::mem::forget(out);
}

// ---------------------------------------------------------------------------
// CFF DICT operands (hook H2 wraps the private Op::read)
// ---------------------------------------------------------------------------

/// Every i32 survives Operand::write -> Op::read, and the reader consumes exactly
/// the bytes the writer produced (all five integer encodings and their boundaries).
// @bound all 2^32 integer operands
#[kani::proof]
#[kani::unwind(8)]
fn c15_cff_integer_operand_roundtrip() {
    let v: i32 = kani::any();
    let mut out = WriteBuffer::new();
    Operand::write(&mut out, &Operand::Integer(v)).unwrap();
    let mut ctxt = ReadScope::new(out.bytes()).ctxt();
    let got = allsorts::cff::verif_read_dict_operand(&mut ctxt).unwrap();
    assert!(got == Some(Operand::Integer(v)));
    assert!(ctxt.scope().data().is_empty());
    // the encoding is the shortest one the Type 2 / DICT table allows
    let expect_len = if v >= -107 && v <= 107 {
        1
    } else if (v >= 108 && v <= 1131) || (v >= -1131 && v <= -108) {
        2
    } else if v >= -32768 && v <= 32767 {
        3
    } else {
        5
    };
    assert!(out.len() == expect_len);
    kani::cover!(v == 1131, "upper edge of the two-byte form");
    kani::cover!(v == -32768, "lower edge of the three-byte form");
    std::mem::forget(out);
}

/// Offsets always use the 5-byte form and read back as the same number.
// @bound all 2^32 offset operands
#[kani::proof]
#[kani::unwind(8)]
fn c15_cff_offset_operand_roundtrip() {
    let v: i32 = kani::any();
    let mut out = WriteBuffer::new();
    Operand::write(&mut out, &Operand::Offset(v)).unwrap();
    assert!(out.len() == 5 && out.bytes()[0] == 29);
    let mut ctxt = ReadScope::new(out.bytes()).ctxt();
    let got = allsorts::cff::verif_read_dict_operand(&mut ctxt).unwrap();
    // read back as a plain integer (offsets are re-tagged by operator later)
    assert!(got == Some(Operand::Integer(v)));
    assert!(ctxt.scope().data().is_empty());
    kani::cover!(v < 0, "negative");
    std::mem::forget(out);
}

/// Decoding direction: every 5-byte prefix decodes to the number the DICT
/// encoding table assigns, consuming the right number of bytes.
// @bound any 5 bytes whose first byte is an integer-operand lead byte (28, 29, 32..=254)
#[kani::proof]
#[kani::unwind(8)]
fn c15_cff_integer_operand_decoding() {
    let buf: [u8; 5] = kani::any();
    let b0 = buf[0];
    kani::assume(b0 == 28 || b0 == 29 || (b0 >= 32 && b0 <= 254));
    let mut ctxt = ReadScope::new(&buf).ctxt();
    let got = allsorts::cff::verif_read_dict_operand(&mut ctxt).unwrap();
    let used = 5 - ctxt.scope().data().len();
    let (expect, n): (i32, usize) = if b0 == 28 {
        (be16(&buf, 1) as i16 as i32, 3)
    } else if b0 == 29 {
        (be32(&buf, 1) as i32, 5)
    } else if b0 <= 246 {
        (b0 as i32 - 139, 1)
    } else if b0 <= 250 {
        ((b0 as i32 - 247) * 256 + buf[1] as i32 + 108, 2)
    } else {
        (-(b0 as i32 - 251) * 256 - buf[1] as i32 - 108, 2)
    };
    assert!(got == Some(Operand::Integer(expect)));
    assert!(used == n);
    kani::cover!(b0 == 251 && buf[1] == 0, "-108");
}

/// CFF INDEX offset array (hook H5 wraps the private serialiser): the offset size is the
/// smallest that holds the last (largest) offset, every offset is stored big-endian in
/// that many bytes and reads back unchanged; an offset that does not fit 32 bits is
/// refused - nothing is ever written truncated.
// @bound offset arrays of 3 non-decreasing offsets starting at 1 (a 2-object INDEX), the other two any usize
#[kani::proof]
#[kani::unwind(8)]
fn c15_cff_index_offset_array() {
    let a: usize = kani::any();
    let b: usize = kani::any();
    kani::assume(1 <= a && a <= b);
    match allsorts::cff::verif_serialise_offset_array(vec![1, a, b]) {
        Ok((off_size, bytes)) => {
            assert!(b <= 0xFFFF_FFFF);
            let n = off_size as usize;
            let want = if b <= 0xFF { 1 } else if b <= 0xFFFF { 2 } else if b <= 0xFF_FFFF { 3 } else { 4 };
            assert!(n == want);
            assert!(bytes.len() == 3 * n);
            assert!(be(&bytes, 0, n) == 1);
            assert!(be(&bytes, n, n) == a as u64);
            assert!(be(&bytes, 2 * n, n) == b as u64);
            kani::cover!(b == 256, "first offset that needs two bytes");
            std::mem::forget(bytes);
        }
        Err(e) => {
            assert!(b > 0xFFFF_FFFF);
            assert!(matches!(e, WriteError::BadValue));
            kani::cover!(true, "offset beyond 32 bits refused");
        }
    }
}

/// post header: byte-exact.
// @bound all 32-byte post headers
#[kani::proof]
#[kani::unwind(34)]
fn c15_post_header_roundtrip() {
    use allsorts::post::Header;
    let buf: [u8; 32] = kani::any();
    let h = ReadScope::new(&buf).read::<Header>().unwrap();
    let mut out = WriteBuffer::new();
    Header::write(&mut out, &h).unwrap();
    assert!(same(out.bytes(), &buf));
    kani::cover!(true, "written");
    std::mem::forget(out);
}
