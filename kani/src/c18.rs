//! C18 - CFF / CFF2 outlines: the per-operator path construction of the Type 2 charstring
//! machine, the move/close discipline, and the subroutine bias and index conversion.
//!
//! One Type 2 path operator is executed by the crate's private `CharStringParser` (through
//! hook H6, `cff::outline::verif_path_operator`, which calls the real `CharStringVisitor::visit`
//! dispatch and the real per-operator `parse_*` method over a real `ArgumentsStack` and
//! `Builder`) on an operand stack of concrete length whose operand VALUES, the pen position and
//! the move-to state are symbolic. The commands delivered to a recording `OutlineSink`, the new pen
//! position and the new state are compared with an independent restatement of Adobe Technical
//! Note #5177 (The Type 2 Charstring Format), section 4.1-4.3, written in exact integer
//! arithmetic in this file. Operands are integers in -128..127 converted to f32, the pen starts at an
//! integer in -128..127, so every partial sum is exactly representable and the comparison does
//! not depend on the order in which the implementation adds.
//!
//! The charstring interpreter itself (operator decoding, width detection, stem counting, hint
//! masks, subroutine calls, seac, blend) is NOT encoded: CBMC does not finish on it even for a
//! fully concrete program (DESIGN.md section 4).
//!
//! @funcs cff::outline::{CharStringParser as CharStringVisitor>::visit, Builder::{move_to, line_to, curve_to, close}, BBox::extend_by}, cff::outline::charstring::CharStringParser::{parse_move_to, parse_horizontal_move_to, parse_vertical_move_to, parse_line_to, parse_horizontal_line_to, parse_vertical_line_to, parse_curve_to, parse_curve_line, parse_line_curve, parse_hh_curve_to, parse_vv_curve_to, parse_hv_curve_to, parse_vh_curve_to, parse_flex, parse_flex1, parse_hflex, parse_hflex1}, ArgumentsStack::{len, at, pop, reverse, clone_into, is_empty}, charstring::{calc_subroutine_bias, conv_subroutine_index_impl}
//! @stub pathfinder_simd built with feature pf-no-simd (scalar geometry)
//! @out the charstring interpreter (number decoding inside a program, width prefix, stem and hint-mask bookkeeping, callsubr/callgsubr nesting, seac, CFF2 blend/vsindex), operand values that are not small integers (fractional 16.16 operands, magnitudes above 127), operand stacks longer than 13, FDSelect, bounding-box conversion

use allsorts::cff::charstring::{verif_parse_number, verif_subroutine_index, VisitOp};
use allsorts::cff::cff2::{verif_blend, verif_write_stack_value};
use allsorts::cff::outline::verif_path_operator;
use allsorts::cff::CFFError;
use allsorts::outline::OutlineSink;
use pathfinder_geometry::line_segment::LineSegment2F;
use pathfinder_geometry::vector::Vector2F;

const MAXCMD: usize = 8;
const MAXARG: usize = 14;

const MOVE: u8 = 0;
const LINE: u8 = 1;
const CURVE: u8 = 4;
const CLOSE: u8 = 3;

// ---------------------------------------------------------------------------
// recording sink (f32, as delivered) and reference command list (exact integers)
// ---------------------------------------------------------------------------

#[derive(Copy, Clone)]
struct Cmd {
    kind: u8,
    p: [f32; 6],
}

struct Rec {
    n: usize,
    cmds: [Cmd; MAXCMD],
}

impl Rec {
    fn new() -> Rec {
        Rec { n: 0, cmds: [Cmd { kind: 255, p: [0.0; 6] }; MAXCMD] }
    }
    fn push(&mut self, kind: u8, p: [f32; 6]) {
        if self.n < MAXCMD {
            self.cmds[self.n] = Cmd { kind, p };
        }
        self.n += 1;
    }
}

impl OutlineSink for Rec {
    fn move_to(&mut self, to: Vector2F) {
        self.push(MOVE, [to.x(), to.y(), 0.0, 0.0, 0.0, 0.0]);
    }
    fn line_to(&mut self, to: Vector2F) {
        self.push(LINE, [to.x(), to.y(), 0.0, 0.0, 0.0, 0.0]);
    }
    fn quadratic_curve_to(&mut self, ctrl: Vector2F, to: Vector2F) {
        self.push(2, [ctrl.x(), ctrl.y(), to.x(), to.y(), 0.0, 0.0]);
    }
    fn cubic_curve_to(&mut self, ctrl: LineSegment2F, to: Vector2F) {
        self.push(
            CURVE,
            [ctrl.from().x(), ctrl.from().y(), ctrl.to().x(), ctrl.to().y(), to.x(), to.y()],
        );
    }
    fn close(&mut self) {
        self.push(CLOSE, [0.0; 6]);
    }
}

#[derive(Copy, Clone)]
struct RCmd {
    kind: u8,
    p: [i32; 6],
}

/// Reference machine state: exact integer pen, the path state of TN5177 and the command list.
struct Ref {
    n: usize,
    cmds: [RCmd; MAXCMD],
    x: i32,
    y: i32,
    open: bool,  // a subpath has been started in this charstring (not the first moveto any more)
    drawn: bool, // a moveto has been seen (drawing operators are legal)
}

impl Ref {
    fn push(&mut self, kind: u8, p: [i32; 6]) {
        if self.n < MAXCMD {
            self.cmds[self.n] = RCmd { kind, p };
        }
        self.n += 1;
    }
    /// "If the current path is open when a moveto operator is encountered, the path is closed
    /// before performing the moveto operation."
    fn moveto(&mut self, dx: i32, dy: i32) {
        if self.open {
            self.push(CLOSE, [0; 6]);
        }
        self.open = true;
        self.drawn = true;
        self.x += dx;
        self.y += dy;
        self.push(MOVE, [self.x, self.y, 0, 0, 0, 0]);
    }
    fn lineto(&mut self, dx: i32, dy: i32) {
        self.x += dx;
        self.y += dy;
        self.push(LINE, [self.x, self.y, 0, 0, 0, 0]);
    }
    /// A Bezier given by six relative deltas: c1 relative to the pen, c2 to c1, end to c2.
    fn curveto(&mut self, d: [i32; 6]) {
        let x1 = self.x + d[0];
        let y1 = self.y + d[1];
        let x2 = x1 + d[2];
        let y2 = y1 + d[3];
        self.x = x2 + d[4];
        self.y = y2 + d[5];
        self.push(CURVE, [x1, y1, x2, y2, self.x, self.y]);
    }
}

/// Which operator, as a small code of this file (so that the reference does not share the
/// crate's enum dispatch).
#[derive(Copy, Clone, PartialEq)]
enum Op {
    RMoveTo,
    HMoveTo,
    VMoveTo,
    RLineTo,
    HLineTo,
    VLineTo,
    RRCurveTo,
    RCurveLine,
    RLineCurve,
    HHCurveTo,
    VVCurveTo,
    HVCurveTo,
    VHCurveTo,
    Flex,
    HFlex,
    HFlex1,
    Flex1,
    EndChar,
}

fn visit_op(op: Op) -> VisitOp {
    match op {
        Op::RMoveTo => VisitOp::MoveTo,
        Op::HMoveTo => VisitOp::HorizontalMoveTo,
        Op::VMoveTo => VisitOp::VerticalMoveTo,
        Op::RLineTo => VisitOp::LineTo,
        Op::HLineTo => VisitOp::HorizontalLineTo,
        Op::VLineTo => VisitOp::VerticalLineTo,
        Op::RRCurveTo => VisitOp::CurveTo,
        Op::RCurveLine => VisitOp::CurveLine,
        Op::RLineCurve => VisitOp::LineCurve,
        Op::HHCurveTo => VisitOp::HhCurveTo,
        Op::VVCurveTo => VisitOp::VvCurveTo,
        Op::HVCurveTo => VisitOp::HvCurveTo,
        Op::VHCurveTo => VisitOp::VhCurveTo,
        Op::Flex => VisitOp::Flex,
        Op::HFlex => VisitOp::Hflex,
        Op::HFlex1 => VisitOp::Hflex1,
        Op::Flex1 => VisitOp::Flex1,
        Op::EndChar => VisitOp::Endchar,
    }
}

/// hvcurveto / vhcurveto: "a number of curves that start horizontal and end vertical, then start
/// vertical and end horizontal, alternating"; the final curve may carry one extra operand for
/// the coordinate its tangent would otherwise leave unchanged.
fn alternating_curves(r: &mut Ref, a: &[i32], n: usize, start_horizontal: bool) {
    let mut i = 0;
    let mut horizontal = start_horizontal;
    while n - i >= 4 {
        let left = n - i;
        let extra = if left == 5 { a[i + 4] } else { 0 };
        if horizontal {
            r.curveto([a[i], 0, a[i + 1], a[i + 2], extra, a[i + 3]]);
        } else {
            r.curveto([0, a[i], a[i + 1], a[i + 2], a[i + 3], extra]);
        }
        i += if left == 5 { 5 } else { 4 };
        horizontal = !horizontal;
    }
}

fn abs(v: i32) -> i32 {
    if v < 0 {
        -v
    } else {
        v
    }
}

/// Is `n` a legal operand count for `op` (TN5177 operand patterns)?
fn legal_count(op: Op, n: usize) -> bool {
    match op {
        Op::RMoveTo => n == 2,
        Op::HMoveTo | Op::VMoveTo => n == 1,
        Op::RLineTo => n >= 2 && n % 2 == 0,
        Op::HLineTo | Op::VLineTo => n >= 1,
        Op::RRCurveTo => n >= 6 && n % 6 == 0,
        Op::RCurveLine => n >= 8 && (n - 2) % 6 == 0,
        Op::RLineCurve => n >= 8 && (n - 6) % 2 == 0,
        Op::HHCurveTo | Op::VVCurveTo => n >= 4 && (n % 4 == 0 || n % 4 == 1),
        Op::HVCurveTo | Op::VHCurveTo => n >= 4 && (n % 4 == 0 || n % 4 == 1),
        Op::Flex => n == 13,
        Op::HFlex => n == 7,
        Op::HFlex1 => n == 9,
        Op::Flex1 => n == 11,
        Op::EndChar => true,
    }
}

/// The path TN5177 assigns to `op` applied to operands `a[..n]` (legal count assumed).
fn reference(r: &mut Ref, op: Op, a: &[i32], n: usize) {
    match op {
        Op::RMoveTo => r.moveto(a[0], a[1]),
        Op::HMoveTo => r.moveto(a[0], 0),
        Op::VMoveTo => r.moveto(0, a[0]),
        Op::RLineTo => {
            let mut i = 0;
            while i < n {
                r.lineto(a[i], a[i + 1]);
                i += 2;
            }
        }
        Op::HLineTo | Op::VLineTo => {
            // alternating horizontal and vertical lines, starting with the operator's direction
            let mut horizontal = op == Op::HLineTo;
            let mut i = 0;
            while i < n {
                if horizontal {
                    r.lineto(a[i], 0);
                } else {
                    r.lineto(0, a[i]);
                }
                horizontal = !horizontal;
                i += 1;
            }
        }
        Op::RRCurveTo => {
            let mut i = 0;
            while i < n {
                r.curveto([a[i], a[i + 1], a[i + 2], a[i + 3], a[i + 4], a[i + 5]]);
                i += 6;
            }
        }
        Op::RCurveLine => {
            let mut i = 0;
            while i + 6 <= n - 2 {
                r.curveto([a[i], a[i + 1], a[i + 2], a[i + 3], a[i + 4], a[i + 5]]);
                i += 6;
            }
            r.lineto(a[i], a[i + 1]);
        }
        Op::RLineCurve => {
            let mut i = 0;
            while i < n - 6 {
                r.lineto(a[i], a[i + 1]);
                i += 2;
            }
            r.curveto([a[i], a[i + 1], a[i + 2], a[i + 3], a[i + 4], a[i + 5]]);
        }
        Op::HHCurveTo => {
            // dy1? {dxa dxb dyb dxc}+
            let mut i = 0;
            let mut dy1 = 0;
            if n % 2 == 1 {
                dy1 = a[0];
                i = 1;
            }
            while i < n {
                r.curveto([a[i], dy1, a[i + 1], a[i + 2], a[i + 3], 0]);
                dy1 = 0;
                i += 4;
            }
        }
        Op::VVCurveTo => {
            // dx1? {dya dxb dyb dyc}+
            let mut i = 0;
            let mut dx1 = 0;
            if n % 2 == 1 {
                dx1 = a[0];
                i = 1;
            }
            while i < n {
                r.curveto([dx1, a[i], a[i + 1], a[i + 2], 0, a[i + 3]]);
                dx1 = 0;
                i += 4;
            }
        }
        Op::HVCurveTo => alternating_curves(r, a, n, true),
        Op::VHCurveTo => alternating_curves(r, a, n, false),
        Op::Flex => {
            // two curves from twelve relative deltas; the flex depth (13th operand) is not drawn
            r.curveto([a[0], a[1], a[2], a[3], a[4], a[5]]);
            r.curveto([a[6], a[7], a[8], a[9], a[10], a[11]]);
        }
        Op::HFlex => {
            // dx1 dx2 dy2 dx3 dx4 dx5 dx6: start, joining point and end share their y; the second
            // curve's second control point is back at the starting y
            r.curveto([a[0], 0, a[1], a[2], a[3], 0]);
            r.curveto([a[4], 0, a[5], -a[2], a[6], 0]);
        }
        Op::HFlex1 => {
            // dx1 dy1 dx2 dy2 dx3 dx4 dx5 dy5 dx6: the end point has the starting y
            let y0 = r.y;
            r.curveto([a[0], a[1], a[2], a[3], a[4], 0]);
            let back = y0 - (r.y + a[7]);
            r.curveto([a[5], 0, a[6], a[7], a[8], back]);
        }
        Op::Flex1 => {
            // dx1 dy1 ... dx5 dy5 d6: d6 is horizontal if the sum of the first five deltas is wider
            // than tall, and then the end point returns to the starting y (and conversely)
            let (x0, y0) = (r.x, r.y);
            r.curveto([a[0], a[1], a[2], a[3], a[4], a[5]]);
            let dx = a[0] + a[2] + a[4] + a[6] + a[8];
            let dy = a[1] + a[3] + a[5] + a[7] + a[9];
            let x5 = x0 + dx;
            let y5 = y0 + dy;
            if abs(dx) > abs(dy) {
                r.curveto([a[6], a[7], a[8], a[9], a[10], y0 - y5]);
            } else {
                r.curveto([a[6], a[7], a[8], a[9], x0 - x5, a[10]]);
            }
        }
        Op::EndChar => {
            // "endchar ... closes the last open subpath"
            if r.open {
                r.push(CLOSE, [0; 6]);
                r.open = false;
            }
        }
    }
}

/// A symbolic integer of `bits` bits (two's complement): -128..127 for 8, -16..15 for 5.
fn small(bits: u32) -> i32 {
    let v: i8 = kani::any();
    (v >> (8 - bits)) as i32
}

struct Run {
    a: [i32; MAXARG],
    x0: i32,
    y0: i32,
    drawn: bool,
    open: bool,
    rec: Rec,
    got: Result<(f32, f32, bool, bool), CFFError>,
}

/// Run `op` through the crate on `N` symbolic operands from a symbolic pen position and state.
fn run<const N: usize>(op: Op, bits: u32) -> Run {
    let mut a = [0i32; MAXARG];
    let mut f = [0f32; MAXARG];
    let mut k = 0;
    while k < N {
        a[k] = small(bits);
        f[k] = a[k] as f32;
        k += 1;
    }
    let x0 = small(bits);
    let y0 = small(bits);
    // state: before any moveto (drawn = false, open = false), inside a subpath, or after endchar
    let drawn: bool = kani::any();
    let open: bool = kani::any();
    kani::assume(!open || drawn); // an open subpath implies that a moveto has been seen
    let mut rec = Rec::new();
    let got = verif_path_operator(
        visit_op(op),
        &mut f,
        N,
        (x0 as f32, y0 as f32),
        drawn,
        !open,
        &mut rec,
    );
    Run { a, x0, y0, drawn, open, rec, got }
}

fn is_drawing(op: Op) -> bool {
    !matches!(op, Op::RMoveTo | Op::HMoveTo | Op::VMoveTo | Op::EndChar)
}

/// A legal operand count: the commands, pen and state equal the reference; a drawing operator
/// before any moveto is refused without output.
fn check<const N: usize>(op: Op, bits: u32) {
    assert!(legal_count(op, N));
    let t = run::<N>(op, bits);
    kani::cover!(t.got.is_ok(), "operator accepted");
    if is_drawing(op) && !t.drawn {
        assert!(matches!(t.got, Err(CFFError::MissingMoveTo)), "drawing before moveto accepted");
        assert!(t.rec.n == 0, "output before moveto");
        return;
    }
    let mut r = Ref {
        n: 0,
        cmds: [RCmd { kind: 255, p: [0; 6] }; MAXCMD],
        x: t.x0,
        y: t.y0,
        open: t.open,
        drawn: t.drawn,
    };
    reference(&mut r, op, &t.a, N);
    let (x, y, has_move_to, is_first_move_to) = t.got.unwrap();
    assert!(t.rec.n == r.n, "number of path commands");
    assert!(r.n <= MAXCMD);
    let mut i = 0;
    while i < MAXCMD {
        if i < r.n {
            assert!(t.rec.cmds[i].kind == r.cmds[i].kind, "command kind");
            let mut j = 0;
            while j < 6 {
                assert!(t.rec.cmds[i].p[j] == r.cmds[i].p[j] as f32, "command coordinate");
                j += 1;
            }
        }
        i += 1;
    }
    assert!(x == r.x as f32 && y == r.y as f32, "pen position after the operator");
    assert!(has_move_to == r.drawn, "moveto seen");
    assert!(is_first_move_to == !r.open, "open subpath state");
    kani::cover!(t.open, "inside a subpath");
}

/// An illegal operand count is an error (partial output is tolerated: the caller discards the
/// outline on Err).
fn check_refused<const N: usize>(op: Op) {
    assert!(!legal_count(op, N));
    let t = run::<N>(op, 8);
    kani::cover!(t.drawn, "after a moveto");
    assert!(t.got.is_err(), "illegal operand count accepted");
}

macro_rules! path_op {
    ($name:ident, $op:expr, $n:expr) => {
        #[kani::proof]
        #[kani::unwind(16)]
        fn $name() {
            check::<$n>($op, 8);
        }
    };
    ($name:ident, $op:expr, $n:expr, bits $b:expr) => {
        #[kani::proof]
        #[kani::unwind(16)]
        fn $name() {
            check::<$n>($op, $b);
        }
    };
    ($name:ident, $op:expr, $n:expr, refused) => {
        #[kani::proof]
        #[kani::unwind(16)]
        fn $name() {
            check_refused::<$n>($op);
        }
    };
}

// @bound operand count 2 (legal) - all operand values and pen positions integers in -128..127; symbolic move-to state
path_op!(c18_rmoveto_2, Op::RMoveTo, 2);
// @bound operand counts 1 (legal); operands and pen integers in -128..127; symbolic move-to state
path_op!(c18_hmoveto_1, Op::HMoveTo, 1);
// @bound operand count 1; operands and pen integers in -128..127; symbolic move-to state
path_op!(c18_vmoveto_1, Op::VMoveTo, 1);
// @bound illegal operand count 3 for rmoveto must be refused
path_op!(c18_rmoveto_3_refused, Op::RMoveTo, 3, refused);
// @bound rlineto with 4 operands (two lines); operands and pen integers in -128..127
path_op!(c18_rlineto_4, Op::RLineTo, 4);
// @bound rlineto with 3 operands (odd) must be refused
path_op!(c18_rlineto_3_refused, Op::RLineTo, 3, refused);
// @bound hlineto with 1 operand
path_op!(c18_hlineto_1, Op::HLineTo, 1);
// @bound hlineto with 4 operands (alternating h v h v)
path_op!(c18_hlineto_4, Op::HLineTo, 4);
// @bound hlineto with 5 operands (odd pattern dx1 {dya dxb}*)
path_op!(c18_hlineto_5, Op::HLineTo, 5);
// @bound vlineto with 2 operands
path_op!(c18_vlineto_2, Op::VLineTo, 2);
// @bound vlineto with 5 operands
path_op!(c18_vlineto_5, Op::VLineTo, 5);
// @bound rrcurveto with 6 operands (one curve)
path_op!(c18_rrcurveto_6, Op::RRCurveTo, 6);
// @tier thorough
// @bound rrcurveto with 12 operands (two curves)
path_op!(c18_rrcurveto_12, Op::RRCurveTo, 12);
// @bound rrcurveto with 8 operands must be refused
path_op!(c18_rrcurveto_8_refused, Op::RRCurveTo, 8, refused);
// @bound rcurveline with 8 operands (curve + line)
path_op!(c18_rcurveline_8, Op::RCurveLine, 8);
// @bound rlinecurve with 8 operands (line + curve)
path_op!(c18_rlinecurve_8, Op::RLineCurve, 8);
// @tier thorough
// @bound rlinecurve with 10 operands (two lines + curve)
path_op!(c18_rlinecurve_10, Op::RLineCurve, 10);
// @bound hhcurveto with 4 operands
path_op!(c18_hhcurveto_4, Op::HHCurveTo, 4);
// @bound hhcurveto with 5 operands (leading dy1)
path_op!(c18_hhcurveto_5, Op::HHCurveTo, 5);
// @tier thorough
// @bound hhcurveto with 9 operands (dy1 + two curves)
path_op!(c18_hhcurveto_9, Op::HHCurveTo, 9);
// @bound hhcurveto with 6 operands must be refused
path_op!(c18_hhcurveto_6_refused, Op::HHCurveTo, 6, refused);
// @bound vvcurveto with 4 operands
path_op!(c18_vvcurveto_4, Op::VVCurveTo, 4);
// @tier thorough
// @bound vvcurveto with 9 operands (dx1 + two curves)
path_op!(c18_vvcurveto_9, Op::VVCurveTo, 9);
// @bound hvcurveto with 4 operands
path_op!(c18_hvcurveto_4, Op::HVCurveTo, 4);
// @bound hvcurveto with 5 operands (final dxf)
path_op!(c18_hvcurveto_5, Op::HVCurveTo, 5);
// @bound hvcurveto with 8 operands (two alternating curves)
path_op!(c18_hvcurveto_8, Op::HVCurveTo, 8);
// @tier thorough
// @bound hvcurveto with 9 operands (two curves + final dyf)
path_op!(c18_hvcurveto_9, Op::HVCurveTo, 9);
// @tier thorough
// @bound hvcurveto with 13 operands (three curves + final)
path_op!(c18_hvcurveto_13, Op::HVCurveTo, 13);
// @bound hvcurveto with 6 operands must be refused
path_op!(c18_hvcurveto_6_refused, Op::HVCurveTo, 6, refused);
// @bound vhcurveto with 4 operands
path_op!(c18_vhcurveto_4, Op::VHCurveTo, 4);
// @bound vhcurveto with 5 operands
path_op!(c18_vhcurveto_5, Op::VHCurveTo, 5);
// @bound vhcurveto with 8 operands
path_op!(c18_vhcurveto_8, Op::VHCurveTo, 8);
// @tier thorough
// @bound vhcurveto with 9 operands
path_op!(c18_vhcurveto_9, Op::VHCurveTo, 9);
// @tier thorough
// @bound vhcurveto with 12 operands (three curves)
path_op!(c18_vhcurveto_12, Op::VHCurveTo, 12);
// @bound flex with 13 operands
path_op!(c18_flex_13, Op::Flex, 13);
// @bound flex with 12 operands must be refused
path_op!(c18_flex_12_refused, Op::Flex, 12, refused);
// @bound hflex with 7 operands
path_op!(c18_hflex_7, Op::HFlex, 7);
// @bound hflex1 with 9 operands
path_op!(c18_hflex1_9, Op::HFlex1, 9);
// @bound flex1 with 11 operands (both orientations of the final delta); operands and pen integers in -16..15
path_op!(c18_flex1_11, Op::Flex1, 11, bits 5);
// @tier thorough
// @bound flex1 with 11 operands (both orientations of the final delta); operands and pen integers in -128..127
path_op!(c18_flex1_11_wide, Op::Flex1, 11);
// @bound endchar with an empty stack: closes exactly when a subpath is open
path_op!(c18_endchar, Op::EndChar, 0);

/// Subroutine numbers are biased: bias 107 / 1131 / 32768 by the size of the subroutine INDEX
/// (TN5176 section 16, TN5177 section 4.7); the operand plus the bias is the index, negative
/// results are invalid.
// @bound every i32 operand and every INDEX size (usize)
#[kani::proof]
fn c18_subroutine_bias_and_index() {
    let operand: i32 = kani::any();
    let count: usize = kani::any();
    let bias: i64 = if count < 1240 {
        107
    } else if count < 33900 {
        1131
    } else {
        32768
    };
    let want = operand as i64 + bias;
    let got = verif_subroutine_index(operand, count);
    if want < 0 || want > i32::MAX as i64 {
        assert!(got.is_none());
    } else {
        assert!(got == Some(want as usize));
    }
    kani::cover!(count == 1239 && operand == -107);
    kani::cover!(count == 33900 && operand == -32768);
}

/// Charstring number encodings (TN5177 section 3.2, table 3): 32..246 -> v-139; 247..250 w ->
/// (v-247)*256+w+108; 251..254 w -> -(v-251)*256-w-108; 255 b1..b4 -> 16.16 fixed.
// @bound every lead byte of each class and every following byte; 16.16 values compared as f64 (exact)
#[kani::proof]
#[kani::unwind(6)]
fn c18_number_encodings() {
    let rest: [u8; 4] = kani::any();
    let v: u8 = kani::any();
    if v >= 32 && v <= 246 {
        assert!(verif_parse_number(1, v, &rest).unwrap() == (v as i32 - 139) as f32);
    }
    if v >= 247 && v <= 250 {
        let want = (v as i32 - 247) * 256 + rest[0] as i32 + 108;
        assert!(verif_parse_number(2, v, &rest).unwrap() == want as f32);
        assert!(verif_parse_number(2, v, &rest[..0]).is_err());
    }
    if v >= 251 && v <= 254 {
        let want = -(v as i32 - 251) * 256 - rest[0] as i32 - 108;
        assert!(verif_parse_number(3, v, &rest).unwrap() == want as f32);
        assert!(verif_parse_number(3, v, &rest[..0]).is_err());
    }
    let raw = ((rest[0] as u32) << 24 | (rest[1] as u32) << 16 | (rest[2] as u32) << 8 | rest[3] as u32) as i32;
    let fx = verif_parse_number(4, 255, &rest).unwrap();
    // the nearest f32 to raw / 65536 (f64 arithmetic is exact here, the cast rounds to nearest)
    assert!(fx == (raw as f64 / 65536.0) as f32);
    assert!(verif_parse_number(4, 255, &rest[..3]).is_err());
    kani::cover!(v == 250 && rest[0] == 255, "largest positive two-byte integer");
    kani::cover!(v == 254 && rest[0] == 255, "most negative two-byte integer");
    kani::cover!(raw == -32768 * 65536);
}

/// One of a few exactly representable scalars, or "region not applicable".
fn any_scalar() -> Option<f32> {
    let c: u8 = kani::any();
    kani::assume(c < 4);
    match c {
        0 => None,
        1 => Some(0.25),
        2 => Some(0.5),
        _ => Some(1.0),
    }
}

/// CFF2 blend: n*(k+1) operands and the count n are replaced by n values, value i = default i +
/// sum over regions j of scalar j * delta (i, j); regions that do not apply contribute nothing.
fn blend_check<const K: usize, const N: usize>() {
    let mut scalars = [None; K];
    let mut j = 0;
    while j < K {
        scalars[j] = any_scalar();
        j += 1;
    }
    // a few operands below the blend arguments stay untouched
    let below = small(8);
    let mut stack = [0f32; 12];
    let mut vals = [0i32; 12];
    stack[0] = below as f32;
    let total = N * (K + 1);
    let mut i = 0;
    while i < total {
        vals[i] = small(8);
        stack[1 + i] = vals[i] as f32;
        i += 1;
    }
    stack[1 + total] = N as f32;
    let got = verif_blend(&scalars, &mut stack, 2 + total);
    assert!(got == Ok(1 + N), "blend leaves n values");
    assert!(stack[0] == below as f32, "operands below the blend arguments are untouched");
    let mut i = 0;
    while i < N {
        // exact: multiples of 1/4 with magnitude below 2^10
        let mut want = vals[i] as f32;
        let mut j = 0;
        while j < K {
            if let Some(sc) = scalars[j] {
                want += sc * vals[N + i * K + j] as f32;
            }
            j += 1;
        }
        assert!(stack[1 + i] == want, "blended value");
        i += 1;
    }
    kani::cover!(K == 0 || scalars[0] == Some(0.5), "half-way scalar");
}

// @bound blend with k = 1 region and n = 2 values: every default and delta in -128..127, scalar in {not applicable, 0.25, 0.5, 1.0}
#[kani::proof]
#[kani::unwind(14)]
fn c18_blend_k1_n2() {
    blend_check::<1, 2>();
}

// @bound blend with k = 2 regions and n = 2 values: every default and delta in -128..127, scalars in {not applicable, 0.25, 0.5, 1.0}
#[kani::proof]
#[kani::unwind(14)]
fn c18_blend_k2_n2() {
    blend_check::<2, 2>();
}

// @bound blend with k = 0 regions (an item variation data without regions) and n = 1: the default passes through, no panic
#[kani::proof]
#[kani::unwind(14)]
fn c18_blend_k0_n1() {
    blend_check::<0, 1>();
}

/// The CFF2 -> CFF charstring converter writes operands with the shortest Type 2 encoding, and
/// the value read back by the charstring number decoders is the value written.
// @bound every i16 integer operand and every 16.16 operand
#[kani::proof]
#[kani::unwind(8)]
fn c18_operand_writer_roundtrip() {
    let v: i16 = kani::any();
    let bytes = verif_write_stack_value(false, v as i32).unwrap();
    let want_len = if v >= -107 && v <= 107 {
        1
    } else if (v >= 108 && v <= 1131) || (v >= -1131 && v <= -108) {
        2
    } else {
        3
    };
    assert!(bytes.len() == want_len, "shortest encoding");
    // decode with the reference rules of TN5177 table 3
    let b0 = bytes[0] as i32;
    let dec = match bytes.len() {
        1 => {
            assert!(b0 >= 32 && b0 <= 246);
            b0 - 139
        }
        2 => {
            if b0 >= 247 && b0 <= 250 {
                (b0 - 247) * 256 + bytes[1] as i32 + 108
            } else {
                assert!(b0 >= 251 && b0 <= 254);
                -(b0 - 251) * 256 - bytes[1] as i32 - 108
            }
        }
        _ => {
            assert!(b0 == 28);
            (((bytes[1] as u16) << 8) | bytes[2] as u16) as i16 as i32
        }
    };
    assert!(dec == v as i32, "integer operand survives");
    let raw: i32 = kani::any();
    let fb = verif_write_stack_value(true, raw).unwrap();
    assert!(fb.len() == 5 && fb[0] == 255);
    let back = ((fb[1] as u32) << 24 | (fb[2] as u32) << 16 | (fb[3] as u32) << 8 | fb[4] as u32) as i32;
    assert!(back == raw, "fixed operand survives");
    kani::cover!(v == 1131);
    kani::cover!(v == -1131);
    kani::cover!(v == 1132);
    std::mem::forget(bytes);
    std::mem::forget(fb);
}
