//! C01 - untrusted font data is rejected with an error, never a crash.
//!
//! Totality harnesses: arbitrary bytes in (buffer of at most N bytes, truncated
//! anywhere), the parser and its allocation-free accessors are called with arbitrary
//! index arguments; there is no assertion other than Kani's own: no panic, no unwrap
//! on None/Err, no arithmetic overflow (dev profile), no slice index out of range, no
//! out-of-bounds pointer, and - through the unwinding assertions - no loop that runs
//! more often than the N-byte buffer can justify.
//!
//! Count fields that size a `Vec` are concrete per harness (a symbolic count that
//! reaches an allocation multiplies CBMC's cost by 10-100x); the family of counts is
//! stated in each bound. A panic that needs a count outside the family is not found.
//!
//! @out buffers longer than the stated N, MVAR / HVAR headers (no answer in 10 min: ItemVariationStore::read builds Vecs from counts), post version 2 names (Vec of PascalStrings: out of memory at 10 GB), kern format 0 with a symbolic pair count (out of memory; fixed counts in C05), cmap format 2 (518-byte key table: no answer in 16 min), GlyfTable::read_dep (its fallback parses a glyph with SimpleGlyph::read_dep: out of memory), WOFF2 simple glyphs with an arbitrary flag byte (symbolic triplet length: no answer in 20 min; per triplet class in C11), decompression (zlib, brotli), whole CFF/CFF2 fonts and DICTs, the charstring interpreter, SimpleGlyph::read_dep (out of memory), subset / whole_font / instance on corrupt fonts, stack depth beyond the composite recursion limit, Font::new (thorough tier of C03)

use crate::util::*;
use allsorts::binary::read::ReadScope;
use allsorts::tables::cmap::{Cmap, CmapSubtable};
use allsorts::tables::glyf::GlyfTable;
use allsorts::tables::kern::KernTable;
use allsorts::tables::loca::LocaTable;
use allsorts::tables::variable_fonts::avar::AvarTable;
use allsorts::tables::variable_fonts::fvar::FvarTable;
use allsorts::tables::{
    FontTableProvider, HeadTable, HheaTable, HmtxTable, IndexToLocFormat, MaxpTable, NameTable,
    OpenTypeFont,
};

/// sfnt / TTC: any bytes, any member index, any tag.
// @funcs OpenTypeFont::read, OffsetTable::read, TTCHeader::read, OpenTypeFont::table_provider, OffsetTableFontProvider::{table_data, has_table}
// @bound any 48 bytes truncated anywhere (magic symbolic over the 4 OpenType magics); member index any usize; tag any u32
#[kani::proof]
#[kani::unwind(6)]
fn c01_sfnt_and_ttc_any_bytes() {
    let buf: [u8; 48] = kani::any();
    let len = any_len(48);
    if let Ok(font) = ReadScope::new(&buf[..len]).read::<OpenTypeFont<'_>>() {
        let i: usize = kani::any();
        if let Ok(p) = font.table_provider(i) {
            let tag: u32 = kani::any();
            let _ = p.has_table(tag);
            let _ = p.table_data(tag);
            kani::cover!(true, "provider built");
        }
    }
}

/// WOFF header + directory, uncompressed entries.
// @funcs WoffFont::read, WoffHeader::read, WoffFont::{table_data, has_table, find_table_directory_entry}, woff::TableDirectoryEntry::read_table
// @bound any 88 bytes truncated anywhere; entries with compLength == origLength (the zlib arm is outside)
#[kani::proof]
#[kani::unwind(6)]
fn c01_woff_any_bytes() {
    let buf: [u8; 88] = kani::any();
    let len = any_len(88);
    if let Ok(font) = ReadScope::new(&buf[..len]).read::<allsorts::woff::WoffFont<'_>>() {
        let tag: u32 = kani::any();
        let _ = font.has_table(tag);
        if let Some(e) = font.find_table_directory_entry(tag) {
            kani::assume(e.comp_length == e.orig_length);
            let _ = font.table_data(tag);
            kani::cover!(true, "entry found");
        }
    }
}

/// WOFF2 header and one table directory entry.
// @funcs Woff2Header::read, woff2::TableDirectoryEntry::read_dep, U32Base128::read
// @bound any 48 + 14 bytes truncated anywhere
#[kani::proof]
#[kani::unwind(8)]
fn c01_woff2_header_and_entry_any_bytes() {
    let buf: [u8; 48] = kani::any();
    let len = any_len(48);
    let _ = ReadScope::new(&buf[..len]).read::<allsorts::woff2::Woff2Header>();
    let ebuf: [u8; 14] = kani::any();
    let elen = any_len(14);
    let off: usize = kani::any();
    let r = ReadScope::new(&ebuf[..elen]).read_dep::<allsorts::woff2::TableDirectoryEntry>(off);
    kani::cover!(r.is_ok(), "entry parsed");
}

/// head, hhea, maxp: truncated anywhere.
// @funcs HeadTable::read, HheaTable::read, MaxpTable::read
// @bound any 54 / 36 / 32 bytes truncated anywhere
#[kani::proof]
#[kani::unwind(6)]
fn c01_head_hhea_maxp_any_bytes() {
    let buf: [u8; 54] = kani::any();
    let len = any_len(54);
    let h = ReadScope::new(&buf[..len]).read::<HeadTable>();
    kani::cover!(h.is_ok(), "head parsed");
    let _ = ReadScope::new(&buf[..len]).read::<HheaTable>();
    let _ = ReadScope::new(&buf[..len]).read::<MaxpTable>();
}

/// hmtx with ANY glyph and metric counts, then any glyph id.
// @funcs HmtxTable::read_dep, HmtxTable::{metric, horizontal_advance}
// @bound any 12 bytes truncated anywhere; numGlyphs and numberOfHMetrics any usize; glyph id any u16
#[kani::proof]
#[kani::unwind(6)]
fn c01_hmtx_any_counts() {
    let buf: [u8; 12] = kani::any();
    let len = any_len(12);
    let ng: usize = kani::any();
    let nh: usize = kani::any();
    if let Ok(hmtx) = ReadScope::new(&buf[..len]).read_dep::<HmtxTable<'_>>((ng, nh)) {
        let g: u16 = kani::any();
        let _ = hmtx.metric(g);
        let _ = hmtx.horizontal_advance(g);
        kani::cover!(nh == 2 && ng == 3, "two metrics, three glyphs");
        std::mem::forget(hmtx);
    }
}

/// name table.
// @funcs NameTable::read
// @bound any 40 bytes truncated anywhere
#[kani::proof]
#[kani::unwind(6)]
fn c01_name_any_bytes() {
    let buf: [u8; 40] = kani::any();
    let len = any_len(40);
    if let Ok(name) = ReadScope::new(&buf[..len]).read::<NameTable<'_>>() {
        let i: usize = kani::any();
        let _ = name.name_records.get_item(i);
        kani::cover!(name.opt_langtag_records.is_some(), "format 1");
    }
}

/// cmap header, encoding records, and a subtable of ANY format at ANY offset, then a lookup.
// @funcs Cmap::read, Cmap::encoding_records, CmapSubtable::read, CmapSubtable::map_glyph, Format4::map_glyph, cmap::offset_to_index
// @bound any 44 bytes truncated anywhere (formats 4, 6, 10, 12 fit; formats 0 and 2 need 262 / 518 bytes and end in BadEof here); subtable offset any usize; character any u32
#[kani::proof]
#[kani::unwind(8)]
fn c01_cmap_any_bytes() {
    let buf: [u8; 44] = kani::any();
    let len = any_len(44);
    let scope = ReadScope::new(&buf[..len]);
    if let Ok(cmap) = scope.read::<Cmap<'_>>() {
        let mut n = 0;
        for _rec in cmap.encoding_records() {
            n += 1;
        }
        kani::cover!(n == 2, "two encoding records");
    }
    let off: usize = kani::any();
    kani::assume(off <= 64);
    if let Ok(sub) = scope.offset(off).read::<CmapSubtable<'_>>() {
        let ch: u32 = kani::any();
        let r = sub.map_glyph(ch);
        kani::cover!(matches!(r, Ok(Some(g)) if g != 0), "mapped");
        kani::cover!(matches!(sub, CmapSubtable::Format12 { .. }), "format 12");
        kani::cover!(matches!(sub, CmapSubtable::Format4(_)), "format 4");
    }
}

/// fvar with arbitrary axis values (incl. min > max) and avar with arbitrary maps.
// @funcs FvarTable::read, FvarTable::normalize, fvar::default_normalize, AvarTable::read, SegmentMap::normalize, Fixed::{sub,neg,div,mul,add}
// @bound any 36-byte fvar with one 20-byte axis (shape fields concrete, min/default/max symbolic in ANY order) and any user value; any 22-byte avar with one 3-record map
#[kani::proof]
#[kani::unwind(7)]
fn c01_fvar_avar_hostile_values() {
    let mut buf: [u8; 36] = kani::any();
    put16(&mut buf, 0, 1);
    put16(&mut buf, 4, 16);
    put16(&mut buf, 8, 1);
    put16(&mut buf, 10, 20);
    put16(&mut buf, 12, 0);
    let fvar = ReadScope::new(&buf).read::<FvarTable<'_>>().unwrap();
    let c: i32 = kani::any();
    let user = [allsorts::tables::Fixed::from_raw(c)];
    let mut abuf: [u8; 22] = kani::any();
    put16(&mut abuf, 0, 1);
    put16(&mut abuf, 6, 1);
    put16(&mut abuf, 8, 3);
    let with_avar: bool = kani::any();
    if with_avar {
        if let Ok(avar) = ReadScope::new(&abuf).read::<AvarTable<'_>>() {
            let t = fvar.normalize(user.iter().copied(), Some(&avar));
            kani::cover!(t.is_ok(), "normalised through avar");
            std::mem::forget(t);
        }
    } else {
        let t = fvar.normalize(user.iter().copied(), None);
        kani::cover!(t.is_ok(), "normalised");
        std::mem::forget(t);
    }
}

/// fvar header with arbitrary counts and sizes.
// @funcs FvarTable::read, FvarTable::axes, FvarTable::instances
// @bound any 40 bytes truncated anywhere
#[kani::proof]
#[kani::unwind(6)]
fn c01_fvar_header_any_bytes() {
    let buf: [u8; 40] = kani::any();
    let len = any_len(40);
    if let Ok(fvar) = ReadScope::new(&buf[..len]).read::<FvarTable<'_>>() {
        let _ = fvar.axis_count();
        kani::cover!(fvar.axis_count() == 1, "one axis");
    }
}

/// CFF INDEX with hostile offsets.
// @funcs cff::IndexU16::read, cff::read_index, Index::read_object (through MaybeOwnedIndex::read_object), cff::lookup_offset_index
// @bound any 12 bytes truncated anywhere, count <= 2; object index any usize
#[kani::proof]
#[kani::unwind(8)]
fn c01_cff_index_hostile_offsets() {
    use allsorts::cff::{IndexU16, MaybeOwnedIndex};
    let buf: [u8; 12] = kani::any();
    let len = any_len(12);
    if len >= 2 {
        kani::assume(be16(&buf, 0) <= 2);
    }
    if let Ok(index) = ReadScope::new(&buf[..len]).read::<IndexU16>() {
        let idx = MaybeOwnedIndex::Borrowed(index);
        let i: usize = kani::any();
        let r = idx.read_object(i);
        kani::cover!(r.is_some(), "object returned");
        kani::cover!(idx.len() == 2, "two objects");
    }
}

/// Transformed hmtx over a glyf table that was NOT transformed (records are `Present`).
// @funcs Woff2HmtxTable::read_dep
// @bound 2 glyphs, numberOfHMetrics 1, transform flags 0..=3, un-parsed glyf records
#[kani::proof]
#[kani::unwind(8)]
fn c01_woff2_hmtx_over_untransformed_glyf() {
    use allsorts::tables::glyf::GlyfRecord;
    use allsorts::woff2::{TableDirectoryEntry, Woff2HmtxTable};
    let gdata: [u8; 12] = kani::any();
    let rec = GlyfRecord::Present { number_of_contours: 1, scope: ReadScope::new(&gdata) };
    let glyf = GlyfTable::new(vec![rec.clone(), rec]).unwrap();
    let buf: [u8; 7] = kani::any();
    kani::assume(buf[0] < 4);
    let entry = TableDirectoryEntry { tag: 0x686D_7478, offset: 0, orig_length: 0, transform_length: Some(1) };
    let r = ReadScope::new(&buf).read_dep::<Woff2HmtxTable>((&entry, &glyf, 2, 1));
    kani::cover!(r.is_err(), "rejected as malformed");
    std::mem::forget(r);
    std::mem::forget(glyf);
}

/// kern format 2 with hostile offsets, class values and row width.
// @funcs KernTable::read_format2, kern::ClassTable::read, kern::ClassTable::get, KernData::lookup (format 2)
// @bound 42-byte table with one format 2 subtable: rowWidth, the three offsets, class table contents and the array all symbolic; class tables with at most 2 glyphs; glyph pair any
#[kani::proof]
#[kani::unwind(8)]
fn c01_kern_format2_hostile_offsets() {
    let mut buf: [u8; 42] = kani::any();
    put16(&mut buf, 0, 0);
    put16(&mut buf, 2, 1);
    buf[8] = 2; // format 2
    // offsets anywhere in or beyond the table
    let lo = be16(&buf, 12) as usize;
    let ro = be16(&buf, 14) as usize;
    if 4 + lo + 4 <= 42 {
        kani::assume(be16(&buf, 4 + lo + 2) <= 2);
    }
    if 4 + ro + 4 <= 42 {
        kani::assume(be16(&buf, 4 + ro + 2) <= 2);
    }
    if let Ok(kern) = ReadScope::new(&buf).read::<KernTable<'_>>() {
        if let Some(Ok(sub)) = kern.sub_tables().next() {
            let l: u16 = kani::any();
            let r: u16 = kani::any();
            let got = sub.data().lookup(l, r);
            kani::cover!(got.is_some(), "a kerning value");
        }
    }
}

macro_rules! coverage_totality {
    ($name:ident, $count:expr) => {
        #[kani::proof]
        #[kani::unwind(6)]
        fn $name() {
            let mut buf: [u8; 16] = kani::any();
            let len = 16;
            // the count sizes a Vec: concrete per harness
            put16(&mut buf, 2, $count);
            let g: u16 = kani::any();
            if let Ok(cov) = ReadScope::new(&buf[..len]).read::<allsorts::layout::Coverage>() {
                let _ = cov.glyph_coverage_value(g);
                kani::cover!(true, "coverage parsed");
                std::mem::forget(cov);
            }
            put16(&mut buf, 4, $count); // ClassDef format 1 keeps its count at byte 4
            if let Ok(cd) = ReadScope::new(&buf[..len]).read::<allsorts::layout::ClassDef>() {
                let _ = cd.glyph_class_value(g);
                std::mem::forget(cd);
            }
            let _ = ReadScope::new(&buf[..len]).read::<allsorts::layout::Anchor>();
        }
    };
}

// @funcs Coverage::read, Coverage::glyph_coverage_value, ClassDef::read, ClassDef::glyph_class_value, Anchor::read
// @bound any 16 bytes with count 0; query glyph any u16
coverage_totality!(c01_coverage_classdef_count0, 0);
// @bound any 16 bytes with count 1 (both formats of both tables); query glyph any u16
coverage_totality!(c01_coverage_classdef_count1, 1);
// @bound any 16 bytes with count 2; query glyph any u16
coverage_totality!(c01_coverage_classdef_count2, 2);

/// Transformed WOFF2 glyf header arithmetic with hostile glyph counts and stream sizes.
macro_rules! woff2_header_hostile {
    ($name:ident, $ng:expr) => {
        #[kani::proof]
        #[kani::unwind(10)]
        fn $name() {
            use allsorts::woff2::{TableDirectoryEntry, Woff2GlyfTable};
            let mut buf = [0u8; 44];
            // the glyph count sizes a Vec: concrete per harness
            put16(&mut buf, 4, $ng);
            let bbox: u32 = kani::any();
            put32(&mut buf, 28, bbox);
            let tail: [u8; 8] = kani::any();
            let mut i = 0;
            while i < 8 {
                buf[36 + i] = tail[i];
                i += 1;
            }
            let entry = TableDirectoryEntry { tag: 0x676C_7966, offset: 0, orig_length: 0, transform_length: Some(1) };
            let loca = LocaTable::empty();
            let r = ReadScope::new(&buf).read_dep::<Woff2GlyfTable>((&entry, &loca));
            kani::cover!(r.is_err(), "rejected");
            std::mem::forget(r);
        }
    };
}

// @funcs woff2::TransformedGlyphTable::read, Woff2GlyfTable::read_dep
// @bound 36-byte header + 8 bytes: numGlyphs = 65535, bbox stream size any u32, the other streams empty (the glyph loop ends at its first read)
woff2_header_hostile!(c01_woff2_glyf_header_65535_glyphs, 65535);

macro_rules! reader_totality {
    ($name:ident, $ty:ty, $n:expr) => {
        #[kani::proof]
        #[kani::unwind(8)]
        fn $name() {
            let buf: [u8; $n] = kani::any();
            let len = any_len($n);
            let r = ReadScope::new(&buf[..len]).read::<$ty>();
            kani::cover!(r.is_ok(), "parsed");
            std::mem::forget(r);
        }
    };
}

// @funcs post::Header::read
// @bound any 32 bytes truncated anywhere
reader_totality!(c01_post_header_any_bytes, allsorts::post::Header, 32);
// @funcs SvgTable::read, SVGDocumentRecord::read_dep
// @bound any 40 bytes truncated anywhere (record offsets and lengths hostile)
reader_totality!(c01_svg_any_bytes, allsorts::tables::svg::SvgTable<'_>, 40);
// @funcs GvarTable::read
// @bound any 40 bytes truncated anywhere (glyph count, offsets, shared tuple count hostile)
reader_totality!(c01_gvar_header_any_bytes, allsorts::tables::variable_fonts::gvar::GvarTable<'_>, 40);
// @funcs StatTable::read
// @bound any 40 bytes truncated anywhere
reader_totality!(c01_stat_any_bytes, allsorts::tables::variable_fonts::stat::StatTable<'_>, 40);
/// OS/2 with any declared table size.
// @funcs Os2::read_dep
// @bound any 100 bytes truncated anywhere; table_size any usize
#[kani::proof]
#[kani::unwind(8)]
fn c01_os2_any_bytes() {
    let buf: [u8; 100] = kani::any();
    let len = any_len(100);
    let size: usize = kani::any();
    let r = ReadScope::new(&buf[..len]).read_dep::<allsorts::tables::os2::Os2>(size);
    kani::cover!(matches!(&r, Ok(t) if t.version5.is_some()), "version 5 parsed");
    std::mem::forget(r);
}

/// Outline of a simple glyph whose endPtsOfContours array is hostile (duplicate,
/// decreasing or out-of-range end points): drawing it must not panic.
// @funcs GlyfTable::visit, SimpleGlyph::contours, glyf::outline::contour::Contour::new
// @bound simple glyph with 2 points and 2 contours whose end points are any u16 values; on/off flags symbolic
#[kani::proof]
#[kani::unwind(18)]
fn c01_glyf_hostile_end_points() {
    use allsorts::outline::{OutlineBuilder, OutlineSink};
    use allsorts::tables::glyf::{BoundingBox, GlyfRecord, Glyph, Point, SimpleGlyph, SimpleGlyphFlag};
    use pathfinder_geometry::line_segment::LineSegment2F;
    use pathfinder_geometry::vector::Vector2F;
    struct Null(u32);
    impl OutlineSink for Null {
        fn move_to(&mut self, _to: Vector2F) {
            self.0 += 1;
        }
        fn line_to(&mut self, _to: Vector2F) {}
        fn quadratic_curve_to(&mut self, _c: Vector2F, _to: Vector2F) {}
        fn cubic_curve_to(&mut self, _c: LineSegment2F, _to: Vector2F) {}
        fn close(&mut self) {}
    }
    let e0: u16 = kani::any();
    let e1: u16 = kani::any();
    let f = |on: bool| if on { SimpleGlyphFlag::ON_CURVE_POINT } else { SimpleGlyphFlag::empty() };
    let glyph = SimpleGlyph {
        bounding_box: BoundingBox { x_min: 0, x_max: 0, y_min: 0, y_max: 0 },
        end_pts_of_contours: vec![e0, e1],
        instructions: &[],
        coordinates: vec![(f(kani::any()), Point(0, 0)), (f(kani::any()), Point(10, 20))],
        phantom_points: None,
    };
    let mut table = GlyfTable::new(vec![GlyfRecord::Parsed(Glyph::Simple(glyph))]).unwrap();
    let mut sink = Null(0);
    let r = table.visit(0, &mut sink);
    kani::cover!(r.is_ok() && sink.0 == 2, "two contours drawn");
    kani::cover!(e1 <= e0, "non-increasing end points");
    std::mem::forget(table);
}

/// sbix: arbitrary strike offsets and glyph data offsets; every glyph id.
// @bound sbix table of 44 bytes with 1 strike and 2 glyphs (numGlyphs is maxp's, concrete), every other byte symbolic (strike offset, the 3 glyph data offsets, data), truncated anywhere; any glyph id
#[kani::proof]
#[kani::unwind(6)]
fn c01_sbix_any_offsets() {
    use allsorts::bitmap::sbix::Sbix;
    let mut buf: [u8; 44] = kani::any();
    put16(&mut buf, 0, 1);
    put32(&mut buf, 4, 1); // numStrikes (sizes a Vec: concrete)
    let len = any_len(44);
    let g: u16 = kani::any();
    if let Ok(sbix) = ReadScope::new(&buf[..len]).read_dep::<Sbix<'_>>(2) {
        assert!(sbix.strikes.len() == 1);
        match sbix.strikes[0].read_glyph(g) {
            Ok(Some(glyph)) => {
                assert!(g < 2);
                let s = be32(&buf, 8) as usize; // strike offset
                let o0 = be32(&buf, s + 4 + 4 * g as usize) as usize;
                let o1 = be32(&buf, s + 8 + 4 * g as usize) as usize;
                assert!(o1 > o0 && o1 - o0 >= 8, "a glyph record is at least its 8-byte header");
                assert!(glyph.data.len() == o1 - o0 - 8, "graphic data is the record minus the header");
                assert!(s + o1 <= len, "record lies inside the table");
                kani::cover!(glyph.data.len() == 3);
            }
            Ok(None) => {
                assert!(g < 2);
            }
            Err(_) => {}
        }
        kani::cover!(g == 1, "second glyph looked up");
        std::mem::forget(sbix);
    }
}

/// gvar header: arbitrary counts, flags and offsets; shared tuple lookup with any index.
// @bound gvar table of 40 bytes, every byte symbolic (glyph count, axis count, shared tuple count, offsets, flags), truncated anywhere; any shared tuple index
#[kani::proof]
#[kani::unwind(6)]
fn c01_gvar_shared_tuple_any() {
    use allsorts::tables::variable_fonts::gvar::GvarTable;
    let mut buf: [u8; 40] = kani::any();
    put16(&mut buf, 0, 1);
    let len = any_len(40);
    if let Ok(gvar) = ReadScope::new(&buf[..len]).read::<GvarTable<'_>>() {
        let i: u16 = kani::any();
        if let Ok(tuple) = gvar.shared_tuple(i) {
            // a returned tuple lies inside the shared tuple array the header declares
            let axis_count = be16(&buf, 4);
            let count = be16(&buf, 6);
            assert!(i < count);
            let _ = &tuple;
            kani::cover!(axis_count == 2 && i == 1, "second shared tuple of a two-axis font");
        }
        kani::cover!(true, "header accepted");
    }
}

/// SVG table: arbitrary record offset, record count 1-2, document offsets and lengths; any glyph.
// @bound SVG table of 40 bytes, every byte symbolic except the record count (0..2), truncated anywhere; any glyph id
#[kani::proof]
#[kani::unwind(6)]
fn c01_svg_lookup_any() {
    use allsorts::tables::svg::SvgTable;
    let mut buf: [u8; 40] = kani::any();
    put16(&mut buf, 0, 0);
    let off = be32(&buf, 2) as usize;
    let len = any_len(40);
    if let Ok(svg) = ReadScope::new(&buf[..len]).read::<SvgTable<'_>>() {
        let g: u16 = kani::any();
        if let Ok(Some(rec)) = svg.lookup_glyph(g) {
            assert!(rec.start_glyph_id <= g && g <= rec.end_glyph_id);
            assert!(off + 2 <= len);
            kani::cover!(rec.svg_document.len() == 3, "document window returned");
        }
        kani::cover!(true, "table accepted");
    }
}

/// Item variation data sub-table (HVAR / MVAR / GDEF / CFF2 deltas): arbitrary counts - including
/// a wordDeltaCount larger than regionIndexCount and the LONG_WORDS flag - and any row index:
/// `delta_set` answers with a row or with `None`, never with a panic, and only for rows that
/// exist.
// @bound ItemVariationData of 24 bytes, every byte symbolic (itemCount, wordDeltaCount incl. the flag bit, regionIndexCount, contents), truncated anywhere; row index any u16
// @release
#[kani::proof]
#[kani::unwind(6)]
fn c01_item_variation_data_rows() {
    use allsorts::tables::variable_fonts::ItemVariationData;
    let buf: [u8; 24] = kani::any();
    let len = any_len(24);
    if let Ok(data) = ReadScope::new(&buf[..len]).read::<ItemVariationData<'_>>() {
        let index: u16 = kani::any();
        let row = data.delta_set(index);
        let item_count = be16(&buf, 0);
        // rows of zero length (no regions) are empty whatever the index; otherwise only rows that exist
        let raw = be16(&buf, 2);
        let row_length = (be16(&buf, 4) as usize + (raw & 0x7FFF) as usize) * if raw & 0x8000 != 0 { 2 } else { 1 };
        if row.is_some() && row_length > 0 {
            assert!(index < item_count, "a row beyond itemCount");
        }
        kani::cover!(row.is_some(), "row returned");
        kani::cover!(row.is_none() && index < item_count, "malformed row layout refused");
        kani::cover!(be16(&buf, 2) & 0x8000 != 0 && row.is_some(), "long words");
    }
}
