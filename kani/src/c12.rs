//! C12 - evaluation of the OpenType variation model: the decoding and scalar kernels that the
//! instancer is assembled from. NOT the instancer (`variations::instance`), IUP, phantom points
//! or CFF2 blends: those sit behind BTreeMap / Vec pipelines CBMC does not finish on.
//!
//! * the per-axis region scalar (`calculate_scalar`, through hook H7) against the definition in
//!   "OpenType Font Variations Common Table Formats / Algorithm for interpolation of instance
//!   values";
//! * `ItemVariationStore::adjustment` (HVAR/MVAR/VVAR deltas) parsed from bytes: at the default
//!   instance every region with a non-zero peak contributes nothing; at a region's peak the
//!   adjustment is the plain sum of the row's deltas, for every delta-row encoding (word count,
//!   LONG_WORDS) and region index;
//! * `DeltaSetIndexMap::entry` for both formats and every entryFormat byte;
//! * packed point numbers and packed deltas of a gvar tuple variation, parsed from bytes through
//!   `TupleVariationStore::<Gvar>::read_dep` + `variation_data`.
//!
//! @funcs variable_fonts::calculate_scalar, variable_fonts::scalar, VariationRegion::scalar, ItemVariationStore::{read, adjustment, variation_region}, VariationRegionList::read, ItemVariationData::{read, delta_set}, DeltaSetT::{delta_set_impl, row_length, word_delta_count, long_deltas}, DeltaSet::iter, calculate_row_length, DeltaSetIndexMap::{read, entry, entry_size_impl}, TupleVariationStore::<Gvar>::{read_dep, variation_data}, TupleVariationHeader::{read_dep, variation_data, read_point_numbers}, read_packed_point_numbers, read_count, packed_deltas::read, GvarVariationData::iter, FvarTable::owned_tuple
//! @out variations::instance, glyf/variation.rs (delta accumulation over points, IUP), phantom points, HVAR/MVAR table wrappers, CFF2 blend, cvar, shared point numbers, more than one axis in the store harness, more than 2 regions, point runs longer than 2, delta runs longer than 4, fractional scalars inside ItemVariationStore::adjustment (the instance is the default or a peak)

use crate::util::*;
use allsorts::binary::read::ReadScope;
use allsorts::tables::variable_fonts::fvar::FvarTable;
use allsorts::tables::variable_fonts::{
    verif_calculate_scalar, verif_delta_set_index_map_entry, DeltaSetIndexMapEntry, Gvar, ItemVariationStore,
    TupleVariationStore,
};
use allsorts::tables::F2Dot14;

// ---------------------------------------------------------------------------
// region scalar
// ---------------------------------------------------------------------------

/// Case analysis of the per-axis scalar: ignored axis, outside the region, at the peak, strictly
/// between start and peak / peak and end.
// @bound every 2.14 instance, start, peak, end with start <= peak <= end (well-formed region)
#[kani::proof]
fn c12_region_scalar_cases() {
    let (i, s, p, e): (i16, i16, i16, i16) = (kani::any(), kani::any(), kani::any(), kani::any());
    kani::assume(s <= p && p <= e);
    let v = verif_calculate_scalar(
        F2Dot14::from_raw(i),
        F2Dot14::from_raw(s),
        F2Dot14::from_raw(p),
        F2Dot14::from_raw(e),
    );
    if p == 0 {
        assert!(v == 1.0, "an axis with a zero peak is ignored");
    } else if i < s || i > e {
        assert!(v == 0.0, "outside the region");
    } else if i == p {
        assert!(v == 1.0, "at the peak");
    } else {
        // strictly inside, not at the peak: a proper fraction of the distance to the peak
        assert!(v >= 0.0 && v < 1.0, "scalar in [0,1)");
        assert!((v == 0.0) == (i == s && i < p || i == e && i > p), "zero exactly at the region's edge");
    }
    kani::cover!(p != 0 && i > s && i < p, "rising side");
    kani::cover!(p != 0 && i > p && i < e, "falling side");
}

/// The value: (instance - start) / (peak - start) below the peak and (end - instance) / (end - peak)
/// above it, correctly rounded to f32 (checked as: scalar * denominator is within half an f32 ulp
/// of the numerator, in exact f64 arithmetic).
// @bound every 2.14 instance, start, peak, end with start <= instance <= end, start <= peak <= end, peak != 0
#[kani::proof]
fn c12_region_scalar_value() {
    let (i, s, p, e): (i16, i16, i16, i16) = (kani::any(), kani::any(), kani::any(), kani::any());
    kani::assume(s <= p && p <= e && p != 0 && s <= i && i <= e && i != p);
    let v = verif_calculate_scalar(
        F2Dot14::from_raw(i),
        F2Dot14::from_raw(s),
        F2Dot14::from_raw(p),
        F2Dot14::from_raw(e),
    );
    let (num, den) = if i < p {
        (i as i32 - s as i32, p as i32 - s as i32)
    } else {
        (e as i32 - i as i32, e as i32 - p as i32)
    };
    // v = fl(num/den), 0 <= num < den < 2^17: |v*den - num| <= den * 2^-25 (half an ulp of a
    // value below 1); v (24 bits) times den (17 bits) is exact in f64
    let prod = v as f64 * den as f64;
    let err = prod - num as f64;
    let tol = den as f64 / 33554432.0;
    assert!(err <= tol && -err <= tol, "scalar is the correctly rounded quotient");
    kani::cover!(num == 1 && den == 3);
}

// ---------------------------------------------------------------------------
// item variation store
// ---------------------------------------------------------------------------

fn one_axis_fvar() -> [u8; 36] {
    let mut buf = [0u8; 36];
    put16(&mut buf, 0, 1);
    put16(&mut buf, 4, 16);
    put16(&mut buf, 6, 2);
    put16(&mut buf, 8, 1);
    put16(&mut buf, 10, 20);
    put32(&mut buf, 16, 0x7767_6874);
    put32(&mut buf, 20, (100u32) << 16);
    put32(&mut buf, 24, (400u32) << 16);
    put32(&mut buf, 28, (900u32) << 16);
    put16(&mut buf, 34, 256);
    buf
}

/// One axis, two regions, one ItemVariationData with one row of two deltas whose encoding
/// (wordDeltaCount 0..2, LONG_WORDS) and region indexes are symbolic. At the default instance (0)
/// regions with a non-zero peak that do not straddle zero contribute nothing; at a common peak
/// both regions contribute their whole delta.
// @bound 1 axis; 2 regions with symbolic start/peak/end (start <= peak <= end, same sign, non-zero peak, common peak); 1 item variation data with 1 row of 2 deltas; wordDeltaCount in 0..2, LONG_WORDS symbolic; region indexes symbolic in 0..1; every delta value; instance = default (0) or the common peak
#[kani::proof]
#[kani::unwind(8)]
fn c12_item_variation_store_adjustment() {
    let mut buf: [u8; 46] = kani::any();
    put16(&mut buf, 0, 1);
    put32(&mut buf, 2, 12);
    put16(&mut buf, 6, 1);
    put32(&mut buf, 8, 28);
    put16(&mut buf, 12, 1); // axisCount
    put16(&mut buf, 14, 2); // regionCount
    let peak: i16 = kani::any();
    kani::assume(peak != 0);
    let mut r = 0;
    while r < 2 {
        let at = 16 + 6 * r;
        put16(&mut buf, at + 2, peak as u16);
        let s = be16(&buf, at) as i16;
        let e = be16(&buf, at + 4) as i16;
        kani::assume(s <= peak && peak <= e);
        kani::assume((s >= 0 && e >= 0) || (s <= 0 && e <= 0)); // a region does not straddle zero
        r += 1;
    }
    put16(&mut buf, 28, 1); // itemCount
    let words: u16 = kani::any();
    let long: bool = kani::any();
    kani::assume(words <= 2);
    put16(&mut buf, 30, words | if long { 0x8000 } else { 0 });
    put16(&mut buf, 32, 2); // regionIndexCount
    let (r0, r1) = (be16(&buf, 34), be16(&buf, 36));
    kani::assume(r0 < 2 && r1 < 2);
    let row = 38;
    // reference decoding of the row: `words` word deltas then (2 - words) short deltas
    let (wsize, ssize) = if long { (4usize, 2usize) } else { (2, 1) };
    let mut d = [0i64; 2];
    let mut at = row;
    let mut k = 0;
    while k < 2 {
        let size = if (k as u16) < words { wsize } else { ssize };
        d[k] = match size {
            1 => buf[at] as i8 as i64,
            2 => be16(&buf, at) as i16 as i64,
            _ => be32(&buf, at) as i32 as i64,
        };
        at += size;
        k += 1;
    }
    let store = ReadScope::new(&buf).read::<ItemVariationStore<'_>>().unwrap();
    let fbuf = one_axis_fvar();
    let fvar = ReadScope::new(&fbuf).read::<FvarTable<'_>>().unwrap();
    let entry = DeltaSetIndexMapEntry { outer_index: 0, inner_index: 0 };

    let at_default = fvar.owned_tuple(&[F2Dot14::from_raw(0)]).unwrap();
    let a0 = store.adjustment(entry, &at_default).unwrap();
    assert!(a0 == 0.0, "no adjustment at the default instance");

    let at_peak = fvar.owned_tuple(&[F2Dot14::from_raw(peak)]).unwrap();
    let a1 = store.adjustment(entry, &at_peak).unwrap();
    let want = (0.0f32 + d[0] as f32) + d[1] as f32;
    assert!(a1 == want, "at the peak the adjustment is the sum of the row's deltas");

    // rows and data sets that do not exist are errors, not other rows
    assert!(store.adjustment(DeltaSetIndexMapEntry { outer_index: 0, inner_index: 1 }, &at_peak).is_err());
    assert!(store.adjustment(DeltaSetIndexMapEntry { outer_index: 1, inner_index: 0 }, &at_peak).is_err());
    kani::cover!(long && words == 1 && d[0] > 70000 && d[1] < -300, "long word + short delta");
    kani::cover!(!long && words == 0 && d[0] == -128, "two int8 deltas");
    std::mem::forget(store);
    std::mem::forget(at_default);
    std::mem::forget(at_peak);
}

// ---------------------------------------------------------------------------
// delta-set index map
// ---------------------------------------------------------------------------

fn index_map_check(buf: &[u8], hdr: usize, map_count: u32) {
    let entry_format = buf[1];
    let entry_size = (((entry_format & 0x30) >> 4) + 1) as usize;
    let inner_bits = ((entry_format & 0x0F) + 1) as u32;
    let i: u32 = kani::any();
    match verif_delta_set_index_map_entry(buf, i) {
        Ok((outer, inner)) => {
            assert!(hdr + entry_size * map_count as usize <= buf.len());
            let k = if i >= map_count { map_count - 1 } else { i } as usize;
            let raw = be(buf, hdr + k * entry_size, entry_size) as u32;
            assert!(outer == (raw >> inner_bits) as u16, "outer index");
            assert!(inner == (raw & ((1u32 << inner_bits) - 1)) as u16, "inner index");
            kani::cover!(i > 5 && entry_size == 3 && inner_bits == 9, "clamped index, 3-byte entries");
            kani::cover!(entry_size >= 3 && inner_bits == 16, "16-bit inner index");
        }
        Err(_) => {
            // only a buffer too short for mapCount entries is refused
            assert!(hdr + entry_size * map_count as usize > buf.len());
        }
    }
}

/// Format 0 (16-bit mapCount): entry i (clamped to the last entry) splits into outer and inner
/// index by the entryFormat bit count, for entries of 1-4 bytes.
// @bound format 0, mapCount 3, every entryFormat byte, every entry byte, every u32 index; buffer truncated at 13 bytes (4-byte entries do not fit and must be refused)
#[kani::proof]
#[kani::unwind(6)]
fn c12_delta_set_index_map_format0() {
    let mut buf: [u8; 13] = kani::any();
    buf[0] = 0;
    put16(&mut buf, 2, 3);
    index_map_check(&buf, 4, 3);
}

/// Format 1 (32-bit mapCount).
// @bound format 1, mapCount 2, every entryFormat byte, every entry byte, every u32 index
#[kani::proof]
#[kani::unwind(6)]
fn c12_delta_set_index_map_format1() {
    let mut buf: [u8; 14] = kani::any();
    buf[0] = 1;
    put32(&mut buf, 2, 2);
    index_map_check(&buf, 6, 2);
}

// ---------------------------------------------------------------------------
// packed point numbers and packed deltas (gvar tuple variation data)
// ---------------------------------------------------------------------------

/// One tuple variation with private point numbers: 2 points in one run (byte or word encoded),
/// then 4 packed deltas (x0 x1 y0 y1) in one run (zero / byte / word encoded).
// @bound 1 axis, 1 tuple variation header with embedded peak and private point numbers; point count 2 in one run, byte or word point numbers with every value (sum below 65536); 4 deltas in one run: all-zero, int8 or int16 with every value
#[kani::proof]
#[kani::unwind(8)]
fn c12_packed_points_and_deltas() {
    let mut buf: [u8; 25] = kani::any();
    put16(&mut buf, 0, 1); // one tuple variation, no shared point numbers
    put16(&mut buf, 2, 10); // offset to the serialized data
    put16(&mut buf, 4, 15); // variationDataSize
    put16(&mut buf, 6, 0xA000); // embedded peak tuple + private point numbers
    let d = 10;
    buf[d] = 2; // point count
    let pwords: bool = kani::any();
    buf[d + 1] = if pwords { 0x80 | 1 } else { 1 }; // run of 2
    let (p0, p1, after) = if pwords {
        (be16(&buf, d + 2) as u32, be16(&buf, d + 4) as u32, d + 6)
    } else {
        (buf[d + 2] as u32, buf[d + 3] as u32, d + 4)
    };
    kani::assume(p0 + p1 <= 0xFFFF);
    let dzero: bool = kani::any();
    let dwords: bool = kani::any();
    kani::assume(!(dzero && dwords));
    buf[after] = 3 | if dzero { 0x80 } else { 0 } | if dwords { 0x40 } else { 0 };
    let mut want = [0i16; 4];
    let mut k = 0;
    while k < 4 {
        want[k] = if dzero {
            0
        } else if dwords {
            be16(&buf, after + 1 + 2 * k) as i16
        } else {
            buf[after + 1 + k] as i8 as i16
        };
        k += 1;
    }
    let scope = ReadScope::new(&buf);
    let store = scope.read_dep::<TupleVariationStore<'_, Gvar>>((1, 6, scope)).unwrap();
    let data = store.variation_data(0).unwrap();
    assert!(data.len() == 2);
    let mut it = data.iter();
    let a = it.next().unwrap();
    let b = it.next().unwrap();
    assert!(it.next().is_none());
    assert!(a.0 == p0 && b.0 == p0 + p1, "point numbers are cumulative");
    assert!(a.1 == (want[0], want[2]) && b.1 == (want[1], want[3]), "x deltas then y deltas");
    assert!(store.variation_data(1).is_err());
    kani::cover!(pwords && dwords && b.0 > 40000 && a.1 .0 < -2000);
    kani::cover!(!pwords && dzero);
    std::mem::forget(it);
    std::mem::forget(data);
    std::mem::forget(store);
}

/// A first count byte of 0 means "all points": numbers 0..numPoints with the deltas in order.
// @bound 1 tuple variation, point count byte 0, numPoints 2 (the store is read with num_points = 2), 4 int8 deltas with every value
#[kani::proof]
#[kani::unwind(8)]
fn c12_packed_all_points() {
    let mut buf: [u8; 16] = kani::any();
    put16(&mut buf, 0, 1);
    put16(&mut buf, 2, 10);
    put16(&mut buf, 4, 6);
    put16(&mut buf, 6, 0xA000);
    buf[10] = 0; // all points
    buf[11] = 3; // 4 int8 deltas
    let scope = ReadScope::new(&buf);
    let store = scope.read_dep::<TupleVariationStore<'_, Gvar>>((1, 2, scope)).unwrap();
    let data = store.variation_data(0).unwrap();
    let mut it = data.iter();
    let a = it.next().unwrap();
    let b = it.next().unwrap();
    assert!(a.0 == 0 && b.0 == 1);
    assert!(a.1 == (buf[12] as i8 as i16, buf[14] as i8 as i16));
    assert!(b.1 == (buf[13] as i8 as i16, buf[15] as i8 as i16));
    kani::cover!(a.1 .0 == -5 && b.1 .1 == 7);
    std::mem::forget(it);
    std::mem::forget(data);
    std::mem::forget(store);
}
