//! C12 - evaluation of the OpenType variation model: the decoding and scalar kernels that the
//! instancer is assembled from. NOT the instancer (`variations::instance`), the accumulation of
//! deltas over a glyph's points, phantom points, HVAR/MVAR wrappers or the item variation store
//! evaluation: those sit behind BTreeMap / Vec pipelines CBMC does not finish on.
//!
//! * the per-axis region scalar (`calculate_scalar`, hook H7) against the definition in "OpenType
//!   Font Variations Common Table Formats / Algorithm for interpolation of instance values";
//! * the inferred delta of an un-referenced point between its referenced neighbours (`do_infer`,
//!   hook H7) against the gvar chapter's rule;
//! * `DeltaSetIndexMap::entry` for both formats and every entryFormat byte (hook H7);
//! * the packed point number and packed delta readers (hook H7).
//!
//! @funcs variable_fonts::calculate_scalar, glyf::variation::do_infer, DeltaSetIndexMap::{read, entry, entry_size_impl}, variable_fonts::read_packed_point_numbers, variable_fonts::read_count, variable_fonts::packed_deltas::read, PointNumbers::iter
//! @out variations::instance, glyf/variation.rs apart from do_infer (delta accumulation over points, contour walking of IUP, phantom points), ItemVariationStore::adjustment and the HVAR/MVAR wrappers (out of memory at 14 GB on a store parsed from bytes), TupleVariationStore/TupleVariationHeader parsing (out of memory), CFF2 blend (decided under C18), cvar, shared point numbers, point runs longer than 3, more than two delta runs

use crate::util::*;
use allsorts::binary::read::ReadScope;
use allsorts::tables::variable_fonts::{
    verif_calculate_scalar, verif_delta_set_index_map_entry, verif_read_packed_deltas,
    verif_read_packed_point_numbers,
};
use allsorts::tables::glyf::verif_do_infer;
use allsorts::tables::F2Dot14;

// ---------------------------------------------------------------------------
// region scalar
// ---------------------------------------------------------------------------

/// A symbolic 2.14 raw value on a grid: every i16 (`grid` = 1) or every multiple of `grid`.
fn any_raw(grid: i16) -> i16 {
    let v: i16 = kani::any();
    kani::assume(v % grid == 0);
    v
}

/// Case analysis of the per-axis scalar: ignored axis, outside the region, at the peak, and the
/// specification's quotient strictly between start and peak / peak and end.
fn region_scalar_cases(grid: i16) {
    let (i, s, p, e) = (any_raw(grid), any_raw(grid), any_raw(grid), any_raw(grid));
    kani::assume(s <= p && p <= e);
    let v = verif_calculate_scalar(
        F2Dot14::from_raw(i),
        F2Dot14::from_raw(s),
        F2Dot14::from_raw(p),
        F2Dot14::from_raw(e),
    );
    if p == 0 {
        assert!(v == 1.0, "an axis with a zero peak is ignored");
    } else if i < s || i > e {
        assert!(v == 0.0, "outside the region");
    } else if i == p {
        assert!(v == 1.0, "at the peak");
    } else if i < p {
        // the specification's formula, evaluated as written there on the 2.14 values
        let want = (f2(i) - f2(s)) / (f2(p) - f2(s));
        assert!(v == want, "rising side: (instance - start) / (peak - start)");
    } else {
        let want = (f2(e) - f2(i)) / (f2(e) - f2(p));
        assert!(v == want, "falling side: (end - instance) / (end - peak)");
    }
    kani::cover!(p != 0 && i > s && i < p, "rising side");
    kani::cover!(p != 0 && i > p && i < e, "falling side");
}

// @bound every 2.14 instance, start, peak, end on the grid of multiples of 1/64 (raw multiples of 256) with start <= peak <= end
#[kani::proof]
fn c12_region_scalar_cases() {
    region_scalar_cases(256);
}

// @tier thorough
// @bound every 2.14 instance, start, peak, end (all 65536 raw values each) with start <= peak <= end
#[kani::proof]
fn c12_region_scalar_cases_full() {
    region_scalar_cases(1);
}

fn f2(raw: i16) -> f32 {
    raw as f32 / 16384.0
}

/// The value: (instance - start) / (peak - start) below the peak and (end - instance) / (end - peak)
/// above it, correctly rounded to f32 (checked as: scalar * denominator is within half an f32 ulp
/// of the numerator, in exact f64 arithmetic).
// @tier thorough
// @bound every 2.14 instance, start, peak, end with start <= instance <= end, start <= peak <= end, peak != 0
#[kani::proof]
fn c12_region_scalar_value() {
    let (i, s, p, e): (i16, i16, i16, i16) = (kani::any(), kani::any(), kani::any(), kani::any());
    kani::assume(s <= p && p <= e && p != 0 && s <= i && i <= e && i != p);
    let v = verif_calculate_scalar(
        F2Dot14::from_raw(i),
        F2Dot14::from_raw(s),
        F2Dot14::from_raw(p),
        F2Dot14::from_raw(e),
    );
    let (num, den) = if i < p {
        (i as i32 - s as i32, p as i32 - s as i32)
    } else {
        (e as i32 - i as i32, e as i32 - p as i32)
    };
    // v = fl(num/den), 0 <= num < den < 2^17: |v*den - num| <= den * 2^-25 (half an ulp of a
    // value below 1); v (24 bits) times den (17 bits) is exact in f64
    let prod = v as f64 * den as f64;
    let err = prod - num as f64;
    let tol = den as f64 / 33554432.0;
    assert!(err <= tol && -err <= tol, "scalar is the correctly rounded quotient");
    kani::cover!(num == 1 && den == 3);
}

// ---------------------------------------------------------------------------
// delta-set index map
// ---------------------------------------------------------------------------

fn index_map_check(buf: &[u8], hdr: usize, map_count: u32) {
    let entry_format = buf[1];
    let entry_size = (((entry_format & 0x30) >> 4) + 1) as usize;
    let inner_bits = ((entry_format & 0x0F) + 1) as u32;
    let i: u32 = kani::any();
    match verif_delta_set_index_map_entry(buf, i) {
        Ok((outer, inner)) => {
            assert!(hdr + entry_size * map_count as usize <= buf.len());
            let k = if i >= map_count { map_count - 1 } else { i } as usize;
            let raw = be(buf, hdr + k * entry_size, entry_size) as u32;
            assert!(outer == (raw >> inner_bits) as u16, "outer index");
            assert!(inner == (raw & ((1u32 << inner_bits) - 1)) as u16, "inner index");
            kani::cover!(i > 5 && entry_size == 3 && inner_bits == 9, "clamped index, 3-byte entries");
            kani::cover!(entry_size >= 3 && inner_bits == 16, "16-bit inner index");
        }
        Err(_) => {
            // only a buffer too short for mapCount entries is refused
            assert!(hdr + entry_size * map_count as usize > buf.len());
        }
    }
}

/// Format 0 (16-bit mapCount): entry i (clamped to the last entry) splits into outer and inner
/// index by the entryFormat bit count, for entries of 1-4 bytes.
// @bound format 0, mapCount 3, every entryFormat byte, every entry byte, every u32 index; buffer truncated at 13 bytes (4-byte entries do not fit and must be refused)
#[kani::proof]
#[kani::unwind(6)]
fn c12_delta_set_index_map_format0() {
    let mut buf: [u8; 13] = kani::any();
    buf[0] = 0;
    put16(&mut buf, 2, 3);
    index_map_check(&buf, 4, 3);
}

/// Format 1 (32-bit mapCount).
// @bound format 1, mapCount 2, every entryFormat byte, every entry byte, every u32 index
#[kani::proof]
#[kani::unwind(6)]
fn c12_delta_set_index_map_format1() {
    let mut buf: [u8; 14] = kani::any();
    buf[0] = 1;
    put32(&mut buf, 2, 2);
    index_map_check(&buf, 6, 2);
}

// ---------------------------------------------------------------------------
// packed point numbers and packed deltas (through hook H7 on the private readers)
// ---------------------------------------------------------------------------
// Going through TupleVariationStore::<Gvar>::read_dep + variation_data ran CBMC out of 14 GB
// (Vec<TupleVariationHeader>, Cow<PointNumbers>, split_off); ItemVariationStore::adjustment on a
// store parsed from bytes likewise (one axis, two regions, one row). The readers themselves are
// reached through the hook.

/// Packed point numbers: count byte(s), then a run of byte or word differences; numbers are the
/// running sums. The shape (count encoding, run kind) is fixed per harness, the values are symbolic.
fn packed_point_numbers(two_byte_count: bool, words: bool) {
    let mut buf: [u8; 7] = kani::any();
    let mut at;
    if two_byte_count {
        buf[0] = 0x80;
        buf[1] = 2;
        at = 2;
    } else {
        buf[0] = 2;
        at = 1;
    }
    buf[at] = 1 | if words { 0x80 } else { 0 }; // run of 2
    at += 1;
    let (d0, d1) = if words {
        (be16(&buf, at) as u32, be16(&buf, at + 2) as u32)
    } else {
        (buf[at] as u32, buf[at + 1] as u32)
    };
    kani::assume(d0 + d1 <= 0xFFFF);
    let used = at + if words { 4 } else { 2 };
    let (got, consumed) = verif_read_packed_point_numbers(&buf, 7).unwrap();
    assert!(got.len() == 2 && consumed == used);
    assert!(got[0] == d0 && got[1] == d0 + d1, "point numbers are cumulative");
    kani::cover!(got[1] > 300 || !words);
    std::mem::forget(got);
}

// @bound point count 2 in a one-byte count, one run of 2 byte differences, every value
#[kani::proof]
#[kani::unwind(8)]
fn c12_packed_point_numbers_bytes() {
    packed_point_numbers(false, false);
}

// @bound point count 2 in a two-byte count (high bit set), one run of 2 word differences, every value with a sum below 65536
#[kani::proof]
#[kani::unwind(8)]
fn c12_packed_point_numbers_words() {
    packed_point_numbers(true, true);
}

/// A first count byte of 0: all `num_points` points, in order.
// @bound count byte 0, num_points 3
#[kani::proof]
#[kani::unwind(8)]
fn c12_packed_all_points() {
    let mut buf: [u8; 3] = kani::any();
    buf[0] = 0;
    let (got, consumed) = verif_read_packed_point_numbers(&buf, 3).unwrap();
    assert!(consumed == 1 && got.len() == 3);
    assert!(got[0] == 0 && got[1] == 1 && got[2] == 2);
    kani::cover!(true);
    std::mem::forget(got);
}

/// Packed deltas: runs of (count - 1 | flags) followed by nothing (DELTAS_ARE_ZERO), int16 or
/// int8 values. 3 deltas from two runs (2 + 1) whose kinds are fixed per harness (0 = zero run,
/// 1 = int8, 2 = int16); the values are symbolic.
fn packed_deltas(kind0: u8, kind1: u8) {
    let mut buf: [u8; 8] = kani::any();
    let mut want = [0i16; 3];
    let mut at = 0;
    let mut idx = 0;
    let mut run = 0;
    while run < 2 {
        let count = 2 - run; // 2 then 1
        let kind = if run == 0 { kind0 } else { kind1 };
        buf[at] = (count as u8 - 1) | if kind == 0 { 0x80 } else { 0 } | if kind == 2 { 0x40 } else { 0 };
        at += 1;
        let mut k = 0;
        while k < count {
            want[idx] = match kind {
                0 => 0,
                1 => buf[at] as i8 as i16,
                _ => be16(&buf, at) as i16,
            };
            at += kind as usize;
            idx += 1;
            k += 1;
        }
        run += 1;
    }
    let (got, consumed) = verif_read_packed_deltas(&buf, 3).unwrap();
    assert!(got.len() == 3 && consumed == at);
    assert!(got[0] == want[0] && got[1] == want[1] && got[2] == want[2], "deltas in stream order");
    kani::cover!(kind0 == 0 || want[0] < 0, "negative delta");
    std::mem::forget(got);
}

// @bound 3 deltas: a run of 2 int16 values then a run of 1 int8 value, every value
#[kani::proof]
#[kani::unwind(8)]
fn c12_packed_deltas_words_then_bytes() {
    packed_deltas(2, 1);
}

// @bound 3 deltas: a run of 2 int8 values then an all-zero run of 1, every value
#[kani::proof]
#[kani::unwind(8)]
fn c12_packed_deltas_bytes_then_zero() {
    packed_deltas(1, 0);
}

// ---------------------------------------------------------------------------
// inferred deltas (interpolation of un-referenced points, one coordinate)
// ---------------------------------------------------------------------------

/// gvar "Inferred deltas for un-referenced point numbers": equal neighbour coordinates -> the
/// common delta or zero; target outside the neighbours' span -> the delta of the nearer neighbour;
/// inside -> linear interpolation (the specification's formula evaluated as written there).
fn inferred_delta_cases(bits: u32) {
    // a symbolic signed integer of `bits` bits
    let any = || -> i16 {
        let v: i16 = kani::any();
        v >> (16 - bits)
    };
    let (pc, tc, nc, pd, nd) = (any(), any(), any(), any(), any());
    let v = verif_do_infer(pc, tc, nc, pd, nd);
    let (lo_c, hi_c) = if pc < nc { (pc, nc) } else { (nc, pc) };
    // delta of the neighbour with the lower / higher coordinate
    let (lo_d, hi_d) = if pc < nc { (pd, nd) } else { (nd, pd) };
    if pc == nc {
        assert!(v == if pd == nd { pd as f32 } else { 0.0 }, "coinciding neighbours");
    } else if tc <= lo_c {
        assert!(v == lo_d as f32, "target below both neighbours takes the lower neighbour's delta");
    } else if tc >= hi_c {
        assert!(v == hi_d as f32, "target above both neighbours takes the upper neighbour's delta");
    } else {
        let proportion = (tc as f32 - pc as f32) / (nc as f32 - pc as f32);
        let want = (1.0 - proportion) * pd as f32 + proportion * nd as f32;
        assert!(v == want, "interpolated delta");
    }
    kani::cover!(pc != nc && tc > lo_c && tc < hi_c && pd != nd, "interpolated");
    kani::cover!(pc > nc && tc <= nc, "below, neighbours in descending order");
}

// @bound every coordinate of the previous, target and next point and every delta of the two neighbours in -16..15
#[kani::proof]
fn c12_inferred_delta_cases() {
    inferred_delta_cases(5);
}

// @tier thorough
// @bound every coordinate of the previous, target and next point and every delta of the two neighbours in -128..127
#[kani::proof]
fn c12_inferred_delta_cases_wide() {
    inferred_delta_cases(8);
}

// ---------------------------------------------------------------------------
// HVAR: which delta set a glyph's metric uses (hook H10 on the private mapping step)
// ---------------------------------------------------------------------------

/// HVAR: with a delta-set index map the glyph id is the map index - and an id at or beyond
/// mapCount uses the LAST entry (OpenType "Associating target items to variation data"); without
/// a map there is no explicit entry (the caller then uses outer 0 / inner glyph id for advances
/// and no delta for side bearings).
// @bound delta-set index map format 0 with mapCount 3, 2-byte entries with 8 inner bits (entryFormat 0x17), every entry byte and every glyph id symbolic; and the absent map
#[kani::proof]
#[kani::unwind(6)]
fn c12_hvar_glyph_to_delta_set() {
    use allsorts::tables::variable_fonts::hvar::verif_delta_set_entry_for_glyph;
    let mut buf: [u8; 10] = kani::any();
    buf[0] = 0;
    buf[1] = 0x17;
    put16(&mut buf, 2, 3);
    let glyph: u16 = kani::any();
    let got = verif_delta_set_entry_for_glyph(glyph, Some(&buf)).unwrap();
    let k = if glyph >= 3 { 2 } else { glyph as usize };
    assert!(got == Some((buf[4 + 2 * k] as u16, buf[5 + 2 * k] as u16)), "entry of the glyph, last entry beyond mapCount");
    kani::cover!(glyph == 2, "last mapped glyph");
    kani::cover!(glyph > 700, "glyph beyond the map");
    assert!(verif_delta_set_entry_for_glyph(glyph, None).unwrap().is_none(), "no map: implicit mapping");
}
