//! C07 - subsetting preserves the metrics of retained glyphs: the hmtx compaction step
//! (and the composite test the glyf subsetter relies on).
//!
//! Only this kernel of the subsetter is within reach (through hook H3, which wraps the
//! private `subset::create_hmtx_table` with a slice-backed glyph list): the end-to-end
//! pipeline gave no answer in 40 min and `GlyfTable::subset` none in 10 min. Nothing
//! about outlines, components, renumbering or CFF is decided here.
//!
//! @funcs GlyfRecord::is_composite, GlyfRecord::number_of_contours, subset::create_hmtx_table (hook H3 verif_create_hmtx_table), HmtxTable::read_dep, HmtxTable::metric, ReadArrayCow::read_item
//! @out outlines (contours, composite closure, component renumbering), CFF / CFF2 / Type1-to-CID conversion, subroutine retention, WOFF / WOFF2 sources, more than 4 source glyphs or 3 retained glyphs

use crate::util::*;
use allsorts::binary::read::ReadScope;
use allsorts::subset::verif_create_hmtx_table;
use allsorts::tables::HmtxTable;

macro_rules! hmtx_subset {
    ($name:ident, $ng:expr, $nh:expr) => {
        #[kani::proof]
        #[kani::unwind(8)]
        fn $name() {
            const NG: usize = $ng;
            const NH: usize = $nh;
            let buf: [u8; 4 * NH + 2 * (NG - NH)] = kani::any();
            let src = ReadScope::new(&buf).read_dep::<HmtxTable<'_>>((NG, NH)).unwrap();
            // the subset keeps glyph 0 and two further distinct glyphs in any order
            let a: u16 = kani::any();
            let b: u16 = kani::any();
            kani::assume(a >= 1 && (a as usize) < NG && b >= 1 && (b as usize) < NG && a != b);
            let old_ids = [0u16, a, b];
            let out = verif_create_hmtx_table(&src, NH, &old_ids).unwrap();
            let mut new = 0;
            while new < 3 {
                let want = src.metric(old_ids[new]).unwrap();
                let got = out.metric(new as u16).unwrap();
                assert!(got.advance_width == want.advance_width, "advance width of a retained glyph");
                assert!(got.lsb == want.lsb, "left side bearing of a retained glyph");
                new += 1;
            }
            kani::cover!(NH == NG || (a as usize) >= NH, "a retained glyph beyond numberOfHMetrics (when there is one)");
            std::mem::forget(out);
            std::mem::forget(src);
        }
    };
}

// @bound source hmtx with 4 glyphs and numberOfHMetrics = 2 (all 12 bytes symbolic); subset [0, a, b] with a != b symbolic in 1..=3
hmtx_subset!(c07_hmtx_compaction_4g_2h, 4, 2);
// @bound source hmtx with 4 glyphs and numberOfHMetrics = 1; subset [0, a, b]
hmtx_subset!(c07_hmtx_compaction_4g_1h, 4, 1);
// @bound source hmtx with 3 glyphs and numberOfHMetrics = 3 (no trailing side bearings); subset [0, a, b]
hmtx_subset!(c07_hmtx_compaction_3g_3h, 3, 3);

/// Composite detection used by the glyf subsetter to decide whether a record must be
/// parsed for its components: any negative contour count is a composite glyph.
// @bound every i16 numberOfContours of an un-parsed record; a parsed composite and a parsed empty glyph
#[kani::proof]
#[kani::unwind(6)]
fn c07_composite_detection() {
    use allsorts::tables::glyf::{BoundingBox, CompositeGlyph, GlyfRecord, Glyph};
    let n: i16 = kani::any();
    let data = [0u8; 4];
    let rec = GlyfRecord::Present { number_of_contours: n, scope: ReadScope::new(&data) };
    assert!(rec.is_composite() == (n < 0));
    assert!(rec.number_of_contours() == n);
    let comp = GlyfRecord::Parsed(Glyph::Composite(CompositeGlyph {
        bounding_box: BoundingBox { x_min: 0, x_max: 0, y_min: 0, y_max: 0 },
        glyphs: Vec::new(),
        instructions: &[],
        phantom_points: None,
    }));
    assert!(comp.is_composite());
    assert!(!GlyfRecord::empty().is_composite());
    kani::cover!(n == -2, "negative count other than -1");
    std::mem::forget(comp);
}
