//! C16 - TrueType outlines: the contour walk with implied on-curve points.
//!
//! A one-glyph `GlyfTable` is built from an already decoded `SimpleGlyph`, visited with a
//! recording `OutlineSink`, and the emitted command list is compared with an independent
//! statement of the TrueType rule (start on the curve: first point if on-curve, else the
//! last point if on-curve, else the midpoint of last and first; an on-curve midpoint is
//! implied between consecutive off-curve points, also across the closing edge; one
//! move_to and one close per contour).
//!
//! `pathfinder_simd` is built with its `pf-no-simd` feature (scalar Vector2F): its SSE
//! implementation uses intrinsics Kani does not model. This is a modelling assumption
//! about a third-party crate.
//!
//! @funcs GlyfTable::visit (OutlineBuilder), GlyfTable::visit_outline, GlyfTable::visit_simple_glyph_outline, glyf::outline::contour::{Contour::new, calculate_origin, points, Points::next, CurvePoint::new}, SimpleGlyph::contours, GlyfTable::get_parsed_glyph
//! @stub pathfinder_simd built with feature pf-no-simd (scalar geometry)
//! @out composite glyphs (one component over a one-point child: no answer in 10 min), the packed flag/coordinate decoder SimpleGlyph::read_dep (2 points: out of memory at 12 GB), contours with more than 4 points, more than 2 contours, point-number component placement

use allsorts::outline::{OutlineBuilder, OutlineSink};
use allsorts::tables::glyf::{
    BoundingBox, GlyfRecord, GlyfTable, Glyph, Point, SimpleGlyph, SimpleGlyphFlag,
};
use pathfinder_geometry::line_segment::LineSegment2F;
use pathfinder_geometry::vector::Vector2F;

const MAXCMD: usize = 12;

#[derive(Copy, Clone, PartialEq)]
struct Cmd {
    kind: u8, // 0 move, 1 line, 2 quad, 3 close, 4 cubic
    a: (f32, f32),
    b: (f32, f32),
}

const NOCMD: Cmd = Cmd { kind: 255, a: (0.0, 0.0), b: (0.0, 0.0) };

struct Rec {
    n: usize,
    cmds: [Cmd; MAXCMD],
}

impl Rec {
    fn new() -> Rec {
        Rec { n: 0, cmds: [NOCMD; MAXCMD] }
    }
    fn push(&mut self, c: Cmd) {
        if self.n < MAXCMD {
            self.cmds[self.n] = c;
        }
        self.n += 1;
    }
}

impl OutlineSink for Rec {
    fn move_to(&mut self, to: Vector2F) {
        self.push(Cmd { kind: 0, a: (to.x(), to.y()), b: (0.0, 0.0) });
    }
    fn line_to(&mut self, to: Vector2F) {
        self.push(Cmd { kind: 1, a: (to.x(), to.y()), b: (0.0, 0.0) });
    }
    fn quadratic_curve_to(&mut self, ctrl: Vector2F, to: Vector2F) {
        self.push(Cmd { kind: 2, a: (ctrl.x(), ctrl.y()), b: (to.x(), to.y()) });
    }
    fn cubic_curve_to(&mut self, _ctrl: LineSegment2F, to: Vector2F) {
        self.push(Cmd { kind: 4, a: (to.x(), to.y()), b: (0.0, 0.0) });
    }
    fn close(&mut self) {
        self.push(Cmd { kind: 3, a: (0.0, 0.0), b: (0.0, 0.0) });
    }
}

fn mid(a: (f32, f32), b: (f32, f32)) -> (f32, f32) {
    ((a.0 + b.0) / 2.0, (a.1 + b.1) / 2.0)
}

/// Independent statement of the TrueType contour rule for one contour.
fn reference_contour(out: &mut Rec, pts: &[(f32, f32)], on: &[bool]) {
    let n = pts.len();
    // origin and the range of points still to be consumed
    let (origin, start, count) = if on[0] {
        (pts[0], 1, n - 1)
    } else if on[n - 1] {
        (pts[n - 1], 0, n - 1)
    } else {
        (mid(pts[n - 1], pts[0]), 0, n)
    };
    out.push(Cmd { kind: 0, a: origin, b: (0.0, 0.0) });
    let mut pending: Option<(f32, f32)> = None;
    let mut k = 0;
    while k < count {
        let i = start + k;
        if on[i] {
            match pending {
                Some(c) => out.push(Cmd { kind: 2, a: c, b: pts[i] }),
                None => out.push(Cmd { kind: 1, a: pts[i], b: (0.0, 0.0) }),
            }
            pending = None;
        } else {
            if let Some(c) = pending {
                out.push(Cmd { kind: 2, a: c, b: mid(c, pts[i]) });
            }
            pending = Some(pts[i]);
        }
        k += 1;
    }
    if let Some(c) = pending {
        out.push(Cmd { kind: 2, a: c, b: origin });
    }
    out.push(Cmd { kind: 3, a: (0.0, 0.0), b: (0.0, 0.0) });
}

fn glyph_table(coords: Vec<(SimpleGlyphFlag, Point)>, ends: Vec<u16>) -> GlyfTable<'static> {
    let glyph = SimpleGlyph {
        bounding_box: BoundingBox { x_min: 0, x_max: 0, y_min: 0, y_max: 0 },
        end_pts_of_contours: ends,
        instructions: &[],
        coordinates: coords,
        phantom_points: None,
    };
    GlyfTable::new(vec![GlyfRecord::Parsed(Glyph::Simple(glyph))]).unwrap()
}

fn flag(on: bool) -> SimpleGlyphFlag {
    if on {
        SimpleGlyphFlag::ON_CURVE_POINT
    } else {
        SimpleGlyphFlag::empty()
    }
}

fn compare(got: &Rec, want: &Rec) {
    assert!(got.n == want.n);
    assert!(got.n <= MAXCMD);
    let mut k = 0;
    while k < MAXCMD {
        if k < got.n {
            assert!(got.cmds[k].kind == want.cmds[k].kind);
            assert!(got.cmds[k].a == want.cmds[k].a);
            assert!(got.cmds[k].b == want.cmds[k].b);
        }
        k += 1;
    }
}

// concrete, pairwise distinct, even coordinates: the walk does not depend on them and
// every implied midpoint is exact
const XY: [(i16, i16); 4] = [(0, 0), (100, 20), (80, 120), (-40, 60)];

macro_rules! walk_harness {
    ($name:ident, $n:expr) => {
        #[kani::proof]
        #[kani::unwind(18)]
        fn $name() {
            const N: usize = $n;
            let mut on = [false; N];
            let mut pts = [(0.0f32, 0.0f32); N];
            let mut coords = Vec::with_capacity(N);
            let mut k = 0;
            while k < N {
                on[k] = kani::any();
                pts[k] = (XY[k].0 as f32, XY[k].1 as f32);
                coords.push((flag(on[k]), Point(XY[k].0, XY[k].1)));
                k += 1;
            }
            let mut table = glyph_table(coords, vec![(N - 1) as u16]);
            let mut got = Rec::new();
            table.visit(0, &mut got).unwrap();
            let mut want = Rec::new();
            reference_contour(&mut want, &pts, &on);
            compare(&got, &want);
            kani::cover!(!on[0] && !on[N - 1], "starts and ends off the curve");
            kani::cover!(N == 1 || (!on[0] && on[N - 1]), "starts off, ends on the curve");
            std::mem::forget(table);
        }
    };
}

// @bound one contour of 1 point, on/off flag symbolic, concrete coordinates
walk_harness!(c16_contour_walk_1pt, 1);
// @bound one contour of 2 points, every on/off pattern, concrete distinct coordinates
walk_harness!(c16_contour_walk_2pt, 2);
// @bound one contour of 3 points, every on/off pattern (8), concrete distinct coordinates
walk_harness!(c16_contour_walk_3pt, 3);
// @bound one contour of 4 points, every on/off pattern (16), concrete distinct coordinates
walk_harness!(c16_contour_walk_4pt, 4);

/// Two contours become two closed sub-paths, in order, each following the rule.
// @bound two contours of 1 + 2 points, every on/off pattern, concrete coordinates
#[kani::proof]
#[kani::unwind(18)]
fn c16_two_contours() {
    let mut on = [false; 3];
    let mut pts = [(0.0f32, 0.0f32); 3];
    let mut coords = Vec::with_capacity(3);
    let mut k = 0;
    while k < 3 {
        on[k] = kani::any();
        pts[k] = (XY[k].0 as f32, XY[k].1 as f32);
        coords.push((flag(on[k]), Point(XY[k].0, XY[k].1)));
        k += 1;
    }
    let mut table = glyph_table(coords, vec![0, 2]);
    let mut got = Rec::new();
    table.visit(0, &mut got).unwrap();
    let mut want = Rec::new();
    reference_contour(&mut want, &pts[0..1], &on[0..1]);
    reference_contour(&mut want, &pts[1..3], &on[1..3]);
    compare(&got, &want);
    kani::cover!(!on[1] && !on[2], "second contour all off-curve");
    std::mem::forget(table);
}

/// Symbolic coordinates: the commands carry the contour's own coordinates (and exact
/// midpoints) whatever they are.
// @tier thorough
// @bound one contour of 2 points, every on/off pattern, every i16 coordinate (3 points with symbolic coordinates: no answer in 40 min in the full harness, 490 s in the round-0 probe)
#[kani::proof]
#[kani::unwind(18)]
fn c16_contour_walk_2pt_symbolic_coordinates() {
    let mut on = [false; 2];
    let mut pts = [(0.0f32, 0.0f32); 2];
    let mut coords = Vec::with_capacity(2);
    let mut k = 0;
    while k < 2 {
        on[k] = kani::any();
        let x: i16 = kani::any();
        let y: i16 = kani::any();
        pts[k] = (x as f32, y as f32);
        coords.push((flag(on[k]), Point(x, y)));
        k += 1;
    }
    let mut table = glyph_table(coords, vec![1]);
    let mut got = Rec::new();
    table.visit(0, &mut got).unwrap();
    let mut want = Rec::new();
    reference_contour(&mut want, &pts, &on);
    compare(&got, &want);
    kani::cover!(!on[0] && !on[1], "all off-curve");
    std::mem::forget(table);
}

// ---------------------------------------------------------------------------
// composite glyphs: the component transform
// ---------------------------------------------------------------------------
// The full composite walk (one component with a concrete offset / scale over a 2-3 point child,
// symbolic on/off pattern) does not finish: five variants each passed 8.8 GB after 19 minutes.
// What is decided is the conversion of the stored scale to the matrix the walk multiplies with.

use allsorts::tables::glyf::CompositeGlyphScale;
use allsorts::tables::F2Dot14;
use pathfinder_geometry::transform2d::Matrix2x2F;

fn f2(raw: i16) -> f32 {
    raw as f32 / 16384.0
}

/// The glyf chapter stores (xscale, scale01, scale10, yscale) and defines
/// x' = xscale*x + scale10*y, y' = scale01*x + yscale*y (Apple TrueType reference manual,
/// FreeType, HarfBuzz and fontTools agree): the image of (1,0) is (xscale, scale01) and the image
/// of (0,1) is (scale10, yscale).
// @bound every 2.14 value of the four matrix entries; uniform and x/y scales likewise
#[kani::proof]
fn c16_component_matrix_convention() {
    let (a, b, c, d): (i16, i16, i16, i16) = (kani::any(), kani::any(), kani::any(), kani::any());
    let m = Matrix2x2F::from(CompositeGlyphScale::Matrix([
        [F2Dot14::from_raw(a), F2Dot14::from_raw(b)],
        [F2Dot14::from_raw(c), F2Dot14::from_raw(d)],
    ]));
    let ex = m * Vector2F::new(1.0, 0.0);
    let ey = m * Vector2F::new(0.0, 1.0);
    assert!(ex.x() == f2(a) && ex.y() == f2(b), "image of the x unit vector is (xscale, scale01)");
    assert!(ey.x() == f2(c) && ey.y() == f2(d), "image of the y unit vector is (scale10, yscale)");
    let s = Matrix2x2F::from(CompositeGlyphScale::Scale(F2Dot14::from_raw(a)));
    let sx = s * Vector2F::new(1.0, 0.0);
    let sy = s * Vector2F::new(0.0, 1.0);
    assert!(sx.x() == f2(a) && sx.y() == 0.0 && sy.x() == 0.0 && sy.y() == f2(a), "uniform scale");
    let xy = Matrix2x2F::from(CompositeGlyphScale::XY { x_scale: F2Dot14::from_raw(a), y_scale: F2Dot14::from_raw(d) });
    let xx = xy * Vector2F::new(1.0, 0.0);
    let yy = xy * Vector2F::new(0.0, 1.0);
    assert!(xx.x() == f2(a) && xx.y() == 0.0 && yy.x() == 0.0 && yy.y() == f2(d), "x and y scale");
    kani::cover!(b != c, "asymmetric matrix");
}
