//! C16 - the packed flag / coordinate encoding of a simple glyph: "the points being those of the
//! packed flag/coordinate encoding with repeats and short/same deltas resolved".
//!
//! `SimpleGlyph::read_dep` is run on a glyph description with a concrete shape (one contour of N
//! points, no instructions, where REPEAT flags may sit) and symbolic flag bits and coordinate
//! bytes, and compared with a decoder written from the glyf chapter of the OpenType
//! specification. With every flag bit including REPEAT symbolic the harness ran out of 12 GB
//! (the flag Vec gets a symbolic length), hence one harness per repeat shape.
//!
//! @funcs glyf::SimpleGlyph::read_dep, SimpleGlyphFlag::{is_repeated, x_is_short, y_is_short, x_short_sign, y_short_sign, x_is_same_or_positive, y_is_same_or_positive, is_on_curve}, BoundingBox::read
//! @out glyphs of more than 3 points or more than one contour, REPEAT counts above 2, instructions, hostile glyph descriptions (repeat runs that overshoot the point count, coordinate sums beyond 16 bits)

use crate::util::*;
use allsorts::binary::read::ReadScope;
use allsorts::tables::glyf::SimpleGlyph;

const N: usize = 3;
const HDR: usize = 8 + 2 + 2;
const STREAM: usize = (N + 1) + 2 * N + 2 * N;

const ON_CURVE: u8 = 0x01;
const X_SHORT: u8 = 0x02;
const Y_SHORT: u8 = 0x04;
const REPEAT: u8 = 0x08;
const X_SAME_OR_POS: u8 = 0x10;
const Y_SAME_OR_POS: u8 = 0x20;

/// One coordinate stream per the specification: short vector = one byte whose sign is the
/// same-or-positive bit; otherwise "same" (delta 0) when that bit is set, else a signed word.
fn deltas(buf: &[u8], at: &mut usize, flags: &[u8; N], short: u8, same: u8) -> [i32; N] {
    let mut out = [0i32; N];
    let mut i = 0;
    while i < N {
        let f = flags[i];
        if f & short != 0 {
            let v = buf[*at] as i32;
            *at += 1;
            out[i] = if f & same != 0 { v } else { -v };
        } else if f & same == 0 {
            out[i] = be16(buf, *at) as i16 as i32;
            *at += 2;
        }
        i += 1;
    }
    out
}

/// `repeat_at`: index of the logical flag that carries REPEAT (N = none); `count`: its repeat byte.
fn packed_points(repeat_at: usize, count: u8) {
    let mut buf = [0u8; HDR + STREAM];
    let bbox: [u8; 8] = kani::any();
    let stream: [u8; STREAM] = kani::any();
    let mut i = 0;
    while i < 8 {
        buf[i] = bbox[i];
        i += 1;
    }
    put16(&mut buf, 8, (N - 1) as u16); // endPtsOfContours[0]
    i = 0;
    while i < STREAM {
        buf[HDR + i] = stream[i];
        i += 1;
    }
    // expand the flags as the specification describes, fixing where REPEAT sits
    let mut flags = [0u8; N];
    let mut at = HDR;
    let mut n = 0;
    while n < N {
        let f = buf[at];
        at += 1;
        if n == repeat_at {
            kani::assume(f & REPEAT != 0);
            kani::assume(buf[at] == count);
            at += 1;
            let mut k = 0;
            while k <= count as usize {
                flags[n] = f;
                n += 1;
                k += 1;
            }
        } else {
            kani::assume(f & REPEAT == 0);
            flags[n] = f;
            n += 1;
        }
    }
    let dx = deltas(&buf, &mut at, &flags, X_SHORT, X_SAME_OR_POS);
    let dy = deltas(&buf, &mut at, &flags, Y_SHORT, Y_SAME_OR_POS);
    // keep the running sums inside the 16-bit coordinate space (hostile sums: C01)
    let (mut x, mut y) = (0i32, 0i32);
    let mut want = [(0i32, 0i32); N];
    i = 0;
    while i < N {
        x += dx[i];
        y += dy[i];
        kani::assume(-32768 <= x && x <= 32767 && -32768 <= y && y <= 32767);
        want[i] = (x, y);
        i += 1;
    }
    let glyph = ReadScope::new(&buf).read_dep::<SimpleGlyph<'_>>(1).unwrap();
    assert!(glyph.coordinates.len() == N, "number of points");
    assert!(glyph.end_pts_of_contours.len() == 1 && glyph.end_pts_of_contours[0] == (N - 1) as u16);
    assert!(glyph.instructions.is_empty());
    assert!(glyph.bounding_box.x_min == be16(&bbox, 0) as i16 && glyph.bounding_box.y_max == be16(&bbox, 6) as i16);
    i = 0;
    while i < N {
        let (flag, point) = glyph.coordinates[i];
        assert!(point.0 as i32 == want[i].0, "x coordinate");
        assert!(point.1 as i32 == want[i].1, "y coordinate");
        assert!(flag.is_on_curve() == (flags[i] & ON_CURVE != 0), "on-curve flag");
        i += 1;
    }
    kani::cover!(flags[1] & X_SHORT != 0 && flags[1] & X_SAME_OR_POS == 0, "negative short x delta");
    kani::cover!(flags[2] & (Y_SHORT | Y_SAME_OR_POS) == 0, "word y delta");
    kani::cover!(flags[0] & (X_SHORT | X_SAME_OR_POS) == X_SAME_OR_POS, "x same as previous");
    std::mem::forget(glyph);
}

/// Three points, no REPEAT flags.
// @bound one contour of 3 points, no instructions; the 3 flag bytes (REPEAT clear) and all coordinate bytes symbolic, running coordinate sums inside the 16-bit range
#[kani::proof]
#[kani::unwind(20)]
fn c16_packed_points_no_repeat() {
    packed_points(N, 0);
}

/// First flag repeated once: flags are f, f, g.
// @bound as above with the first flag carrying REPEAT with count 1
#[kani::proof]
#[kani::unwind(20)]
fn c16_packed_points_repeat_first_once() {
    packed_points(0, 1);
}

/// First flag repeated twice: flags are f, f, f.
// @bound as above with the first flag carrying REPEAT with count 2
#[kani::proof]
#[kani::unwind(20)]
fn c16_packed_points_repeat_first_twice() {
    packed_points(0, 2);
}

/// Second flag repeated once: flags are f, g, g.
// @tier thorough
// @bound as above with the second flag carrying REPEAT with count 1
#[kani::proof]
#[kani::unwind(20)]
fn c16_packed_points_repeat_second_once() {
    packed_points(1, 1);
}

/// A REPEAT flag with a zero count is the flag alone.
// @tier thorough
// @bound as above with the last flag carrying REPEAT with count 0
#[kani::proof]
#[kani::unwind(20)]
fn c16_packed_points_repeat_zero() {
    packed_points(2, 0);
}
