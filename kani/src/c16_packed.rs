//! C16 - the packed flag / coordinate encoding of a simple glyph: "the points being those of the
//! packed flag/coordinate encoding with repeats and short/same deltas resolved".
//!
//! `SimpleGlyph::read_dep` is run on a glyph description with a concrete shape (one contour of N
//! points, no instructions, where REPEAT flags sit, which of short vector / same / word each delta
//! uses) and symbolic sign bits, on-curve bits and coordinate bytes, and compared with a decoder written from the glyf chapter of the OpenType
//! specification. With every flag bit including REPEAT symbolic the harness ran out of 12 GB
//! (the flag Vec gets a symbolic length), and with the delta kinds symbolic (symbolic stream
//! positions) 3 points gave no answer in 10 min; hence one harness per shape.
//!
//! @funcs glyf::SimpleGlyph::read_dep, SimpleGlyphFlag::{is_repeated, x_is_short, y_is_short, x_short_sign, y_short_sign, x_is_same_or_positive, y_is_same_or_positive, is_on_curve}, BoundingBox::read
//! @out glyphs of more than 1 point (2 and 3 points with a concrete stream layout: no answer in 10 min per shape; the oracle is not the cost), and in the quick tier every shape but one: a single point with short vectors or words on BOTH axes runs CBMC out of its 10 GB cap in 150 s even with the unwinding bound at its minimum of 3 (thorough tier, 16 GB, no answer recorded); 2 points with unwind(4): out of memory as well, while x = same / y = short with a REPEAT flag of count 0 takes 15 s or more than one contour, REPEAT counts above 1, instructions, hostile glyph descriptions (repeat runs that overshoot the point count, coordinate sums beyond 16 bits)

use crate::util::*;
use allsorts::binary::read::ReadScope;
use allsorts::tables::glyf::SimpleGlyph;

const N: usize = 1;
const HDR: usize = 8 + 2 + 2;
const STREAM: usize = (N + 1) + 2 * N + 2 * N;

const ON_CURVE: u8 = 0x01;
const X_SHORT: u8 = 0x02;
const Y_SHORT: u8 = 0x04;
const REPEAT: u8 = 0x08;
const X_SAME_OR_POS: u8 = 0x10;
const Y_SAME_OR_POS: u8 = 0x20;

const SHORT: u8 = 0;
const SAME: u8 = 1;
const WORD: u8 = 2;

/// Flag bits of one coordinate of the given kind; the sign of a short vector is symbolic.
fn kind_bits(kind: u8, short: u8, same: u8) -> u8 {
    match kind {
        SHORT => short | if kani::any() { same } else { 0 },
        SAME => same,
        _ => 0,
    }
}

/// One coordinate stream per the specification: short vector = one byte whose sign is the
/// same-or-positive bit; otherwise "same" (delta 0) when that bit is set, else a signed word.
/// The kind of each delta is concrete, so the stream positions are too.
fn deltas(buf: &[u8], at: &mut usize, flags: &[u8; N], kinds: [u8; N], same: u8) -> [i32; N] {
    let mut out = [0i32; N];
    let mut i = 0;
    while i < N {
        if kinds[i] == SHORT {
            let v = buf[*at] as i32;
            *at += 1;
            out[i] = if flags[i] & same != 0 { v } else { -v };
        } else if kinds[i] == WORD {
            out[i] = be16(buf, *at) as i16 as i32;
            *at += 2;
        }
        i += 1;
    }
    out
}

/// `kinds`: how the x and y delta of each of the N points is stored (this fixes the layout of
/// the streams; on-curve bits, signs and all data bytes stay symbolic). `repeat_at`: index of
/// the logical flag that carries REPEAT (N = none) and `count` its repeat byte; the points a
/// repeated flag covers share its kinds.
fn packed_points(kinds: [(u8, u8); N], repeat_at: usize, count: u8) {
    // no copy loops here: the unwinding bound of the harness is also applied to every loop of
    // read_dep (Vec growth paths included), so it has to stay at N + 2
    let mut buf: [u8; HDR + STREAM] = kani::any();
    let bbox = [buf[0], buf[1], buf[2], buf[3], buf[4], buf[5], buf[6], buf[7]];
    put16(&mut buf, 8, (N - 1) as u16); // endPtsOfContours[0]
    put16(&mut buf, 10, 0); // instructionLength
    let mut i;
    // write the flag bytes, expanding them as the specification describes
    let mut flags = [0u8; N];
    let mut at = HDR;
    let mut n = 0;
    while n < N {
        let on: u8 = if kani::any() { ON_CURVE } else { 0 };
        let f = on | kind_bits(kinds[n].0, X_SHORT, X_SAME_OR_POS) | kind_bits(kinds[n].1, Y_SHORT, Y_SAME_OR_POS);
        if n == repeat_at {
            buf[at] = f | REPEAT;
            buf[at + 1] = count;
            at += 2;
            let mut k = 0;
            while k <= count as usize {
                flags[n] = f;
                n += 1;
                k += 1;
            }
        } else {
            buf[at] = f;
            at += 1;
            flags[n] = f;
            n += 1;
        }
    }
    let mut xk = [0u8; N];
    let mut yk = [0u8; N];
    i = 0;
    while i < N {
        xk[i] = kinds[i].0;
        yk[i] = kinds[i].1;
        i += 1;
    }
    let dx = deltas(&buf, &mut at, &flags, xk, X_SAME_OR_POS);
    let dy = deltas(&buf, &mut at, &flags, yk, Y_SAME_OR_POS);
    // keep the running sums inside the 16-bit coordinate space (hostile sums: C01)
    let (mut x, mut y) = (0i32, 0i32);
    let mut want = [(0i32, 0i32); N];
    i = 0;
    while i < N {
        x += dx[i];
        y += dy[i];
        kani::assume(-32768 <= x && x <= 32767 && -32768 <= y && y <= 32767);
        want[i] = (x, y);
        i += 1;
    }
    let glyph = ReadScope::new(&buf).read_dep::<SimpleGlyph<'_>>(1).unwrap();
    assert!(glyph.coordinates.len() == N, "number of points");
    assert!(glyph.end_pts_of_contours.len() == 1 && glyph.end_pts_of_contours[0] == (N - 1) as u16);
    assert!(glyph.instructions.is_empty());
    assert!(glyph.bounding_box.x_min == be16(&bbox, 0) as i16 && glyph.bounding_box.y_max == be16(&bbox, 6) as i16);
    i = 0;
    while i < N {
        let (flag, point) = glyph.coordinates[i];
        assert!(point.0 as i32 == want[i].0, "x coordinate");
        assert!(point.1 as i32 == want[i].1, "y coordinate");
        assert!(flag.is_on_curve() == (flags[i] & ON_CURVE != 0), "on-curve flag");
        i += 1;
    }
    kani::cover!(want[N - 1].1 < 0, "negative y");
    kani::cover!(flags[N - 1] & ON_CURVE != 0, "on-curve point");
    std::mem::forget(glyph);
}

/// Short vectors (one byte + sign bit) on both axes.
// @tier thorough
// @bound one contour of 1 point, no instructions, both deltas short vectors; sign bits, on-curve bit and data bytes symbolic
#[kani::proof]
#[kani::unwind(3)]
fn c16_packed_point_short_vectors() {
    packed_points([(SHORT, SHORT); N], N, 0);
}

/// Signed words on both axes.
// @tier thorough
// @bound as above with 16-bit word deltas
#[kani::proof]
#[kani::unwind(3)]
fn c16_packed_point_words() {
    packed_points([(WORD, WORD); N], N, 0);
}

/// "Same as previous" on x (delta 0), short y; REPEAT with a zero count is the flag alone.
// @bound as above with x = same, y = short vector, the flag carrying REPEAT with count 0
#[kani::proof]
#[kani::unwind(3)]
fn c16_packed_point_same_and_repeat_zero() {
    packed_points([(SAME, SHORT); N], 0, 0);
}
