//! Native evaluation of the integer kernels that Engine B encodes (lib/mir2smt.py).
//! Built with RUSTFLAGS="--cfg allsorts_verif" so that the H4 hooks exist.
//!
//! Reads one request per line from stdin: `<kernel> <int args...>` and answers with one
//! line: `ok <ints...>` (the observable result) or `panic` (the call panicked).
//! Used (a) to validate the MIR->SMT translation on concrete inputs on every run and
//! (b) to replay solver models against the real code before a VIOLATION is reported.
use std::io::{self, BufRead, Write};
use std::panic;

use allsorts::tables::variable_fonts::fvar::VariationAxisRecord;
use allsorts::tables::{F2Dot14, Fixed};

fn axis(min: i64, def: i64, max: i64) -> VariationAxisRecord {
    VariationAxisRecord {
        axis_tag: 0,
        min_value: Fixed::from_raw(min as i32),
        default_value: Fixed::from_raw(def as i32),
        max_value: Fixed::from_raw(max as i32),
        flags: 0,
        axis_name_id: 0,
    }
}

fn eval(name: &str, a: &[i64]) -> Option<Vec<i128>> {
    Some(match name {
        // default_normalize(axis{min,default,max}, coord) -> Fixed raw
        "default_normalize" => {
            let r = allsorts::tables::variable_fonts::fvar::verif_default_normalize(
                &axis(a[0], a[1], a[2]),
                Fixed::from_raw(a[3] as i32),
            );
            vec![r.raw_value() as i128]
        }
        // default_normalize followed by F2Dot14::from(Fixed) -> 2.14 raw
        "normalize_f2dot14" => {
            let r = allsorts::tables::variable_fonts::fvar::verif_default_normalize(
                &axis(a[0], a[1], a[2]),
                Fixed::from_raw(a[3] as i32),
            );
            vec![F2Dot14::from(r).raw_value() as i128]
        }
        "f2dot14_from_fixed" => vec![F2Dot14::from(Fixed::from_raw(a[0] as i32)).raw_value() as i128],
        "fixed_from_f2dot14" => vec![Fixed::from(F2Dot14::from_raw(a[0] as i16)).raw_value() as i128],
        "fixed_mul_div" => {
            let (x, y) = (Fixed::from_raw(a[0] as i32), Fixed::from_raw(a[1] as i32));
            vec![(x * y).raw_value() as i128, (x / y).raw_value() as i128]
        }
        "f2dot14_mul_div" => {
            let (x, y) = (F2Dot14::from_raw(a[0] as i16), F2Dot14::from_raw(a[1] as i16));
            vec![(x * y).raw_value() as i128, (x / y).raw_value() as i128]
        }
        "offset_to_index" => {
            match allsorts::tables::cmap::verif_offset_to_index(a[0] as usize, a[1] as u16, a[2] as u16, a[3] as usize) {
                Ok(i) => vec![0, i as i128],
                Err(_) => vec![1, 0],
            }
        }
        "max_power_of_2" => vec![allsorts::subset::verif_max_power_of_2(a[0] as u16) as i128],
        // numTables, searchRange, entrySelector, rangeShift of a font with a[0] tables written by
        // subset::whole_font over a synthetic provider (head, maxp + a[0]-2 four-byte tables)
        "sfnt_search_fields" => {
            let n = a[0] as usize;
            if n < 2 {
                return None;
            }
            let tags: Vec<u32> = (0..(n - 2) as u32).map(|i| 0x4100_0000 + i).collect();
            let bytes = allsorts::subset::whole_font(&Synthetic, &tags).ok()?;
            let be = |at: usize| ((bytes[at] as i128) << 8) | bytes[at + 1] as i128;
            vec![0, be(4), be(6), be(8), be(10)]
        }
        "long_align" => vec![allsorts::binary::long_align(a[0] as usize) as i128],
        "word_align" => vec![allsorts::binary::word_align(a[0] as usize) as i128],
        "offset_size" => match allsorts::cff::verif_offset_size(a[0] as usize) {
            Some(n) => vec![1, n as i128],
            None => vec![0, 0],
        },
        _ => return None,
    })
}

/// Provider for `sfnt_search_fields`: a valid head and maxp, every other tag is 4 bytes.
struct Synthetic;

impl allsorts::tables::FontTableProvider for Synthetic {
    fn table_data(&self, tag: u32) -> Result<Option<std::borrow::Cow<'_, [u8]>>, allsorts::error::ParseError> {
        const HEAD: u32 = 0x6865_6164;
        const MAXP: u32 = 0x6D61_7870;
        Ok(Some(std::borrow::Cow::Owned(match tag {
            HEAD => {
                let mut h = vec![0u8; 54];
                h[1] = 1;
                h[12..16].copy_from_slice(&[0x5F, 0x0F, 0x3C, 0xF5]);
                h
            }
            MAXP => vec![0, 0, 0x50, 0, 0, 1],
            _ => vec![1, 2, 3, 4],
        })))
    }
    fn has_table(&self, _tag: u32) -> bool {
        true
    }
    fn table_tags(&self) -> Option<Vec<u32>> {
        None
    }
}

fn main() {
    panic::set_hook(Box::new(|_| {}));
    let stdin = io::stdin();
    let stdout = io::stdout();
    let mut out = stdout.lock();
    for line in stdin.lock().lines() {
        let line = line.unwrap();
        let mut it = line.split_whitespace();
        let name = match it.next() {
            Some(n) => n.to_string(),
            None => continue,
        };
        // arguments are passed as (possibly 64-bit unsigned) decimal integers
        let args: Vec<i64> = it.map(|t| t.parse::<i128>().unwrap() as i64).collect();
        let res = panic::catch_unwind(|| eval(&name, &args));
        match res {
            Ok(Some(v)) => {
                let s: Vec<String> = v.iter().map(|x| x.to_string()).collect();
                writeln!(out, "ok {}", s.join(" ")).unwrap();
            }
            Ok(None) => writeln!(out, "unknown").unwrap(),
            Err(_) => writeln!(out, "panic").unwrap(),
        }
    }
}
