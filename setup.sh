#!/bin/sh
# MANIFEST.setup_cmd: offline, from files on disk only. Copies /repo's lockfile into the
# harness crate and warms the Kani build of the dependency graph (allsorts itself is
# recompiled from /repo's working tree by every check through cargo's fingerprinting).
set -e
cd "$(dirname "$0")"
export CARGO_NET_OFFLINE=true
mkdir -p .build evidence replays
cp /repo/Cargo.lock kani/Cargo.lock
( cd kani && cargo kani --features c14 --target-dir ../.build/kani-target --only-codegen >../.build/setup.log 2>&1 ) || { tail -20 .build/setup.log; echo "setup: kani warm-up build failed (checks will retry)"; }
echo "setup done"
