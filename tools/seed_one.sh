#!/bin/sh
# development aid: run one check (optionally one harness) against one seeded change in a scratch
# worktree:  tools/seed_one.sh <seed-id> <PROP> [harness-substring]
set -e
S=$1; P=$2; ONLY=$3
WT=/tmp/seedrun/one_$S
git -C /repo worktree remove --force $WT >/dev/null 2>&1 || true
rm -rf $WT $WT.build
git -C /repo worktree add --detach $WT HEAD >/dev/null 2>&1
cp /repo/Cargo.lock $WT/
git -C $WT apply /verif/seeded/$S/patch.diff
if [ -n "$ONLY" ]; then
  VERIF_REPO=$WT VERIF_BUILD=$WT.build /verif/check $P --tier quick --only $ONLY --no-smt || true
else
  VERIF_REPO=$WT VERIF_BUILD=$WT.build /verif/check $P --tier quick || true
fi
git -C /repo worktree remove --force $WT >/dev/null 2>&1 || true
rm -rf $WT $WT.build
