#!/bin/sh
# Runs every registered check (quick tier by default) one after the other and prints one line each.
cd "$(dirname "$0")/.."
TIER=${1:-quick}
for id in $(python3 -c "import json;print(' '.join(c['property_id'] for c in json.load(open('MANIFEST.json'))['checks']))"); do
  t0=$(date +%s)
  ./check "$id" --tier "$TIER" > ".build/all-$id-$TIER.log" 2>&1
  rc=$?
  echo "$id exit=$rc $(( $(date +%s) - t0 ))s $(grep '^SUMMARY' .build/all-$id-$TIER.log | tail -1)"
done
