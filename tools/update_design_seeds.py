#!/usr/bin/env python3
"""Rewrite the seeded-change table of DESIGN.md section 10 from seeded/*/{meta,result}.json."""
import os, re, subprocess, sys
root = os.path.dirname(os.path.dirname(os.path.abspath(__file__)))
table = subprocess.run([sys.executable, os.path.join(root, "tools", "seed_table.py")], stdout=subprocess.PIPE).stdout.decode()
rows = [l for l in table.split("\n") if l.startswith("| c")]
caught = sum(1 for r in rows if "**caught**" in r)
p = os.path.join(root, "DESIGN.md")
s = open(p).read()
a = s.index("| seed | property | change (needs) | result | by |")
b = s.index("Reading the table:")
s = s[:a] + table.strip() + "\n\n%d of %d seeded changes are caught (`seeded/*/result.json`).\n\n\n" % (caught, len(rows)) + s[b:]
open(p, "w").write(s)
print("%d of %d" % (caught, len(rows)))
