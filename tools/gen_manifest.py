#!/usr/bin/env python3
"""Regenerates /verif/MANIFEST.json from the table below (kept in one place so the
manifest stays schema-valid while checks are added)."""
import json
import os
import subprocess

VERIF = os.path.dirname(os.path.dirname(os.path.abspath(__file__)))

TECH_KANI = "bounded model checking of the compiled crate: Kani 0.68 proof harnesses over kani::any() inputs, decided by CBMC 6.11/CaDiCaL with unwinding assertions on; counterexamples replayed natively (dev+release)"
TECH_SMT = "MIR->SMT-LIB2 symbolic execution of loop-free integer kernels regenerated from /repo's nightly MIR dump, decided by cvc5 and z3 5.1; models replayed natively"

# property -> (claim text, note, design ref, technique)
CLAIMS = {
    "C14": (
        "Bounded solver verdict (not a proof): for every buffer of <= 12 bytes with any truncation and any cursor, and for "
        "every usize length/stride/offset/index argument, each typed read returns the big-endian value at the cursor and "
        "advances by exactly its size or fails without effect; arrays, strided and dependent arrays, scopes, iterators, "
        "ReadArrayCow and binary search expose exactly the elements of their window (arrays <= 4 elements). CBMC pointer "
        "checks make any out-of-bounds get_unchecked a failure. read_item/iter_res agree with get_item on strided arrays; every sequence of 3 operations "
        "from {typed reads, read_slice(n), read_array(n)} follows a reference cursor. A generated harness per public ReadFrom implementor found in "
        "/repo/src (34 today) checks exact consumption of T::SIZE bytes.",
        "Trusted: Kani's MIR->goto translation, CBMC, CaDiCaL. Outside the bound: buffers > 12 bytes, arrays > 4 elements, "
        "operation sequences longer than 3, ReadCache (std HashMap).",
        "DESIGN.md section 6, C14", TECH_KANI),
}

CLAIMS.update({
    "C06": (
        "Bounded solver verdict: for cmap subtables of formats 0, 4 (2 segments + 2-entry glyphIdArray; 3 + 4 in the thorough tier), "
        "6, 10 (3 entries) and 12 (2 groups; 3 thorough) with EVERY value field symbolic, parsed by the real reader, map_glyph(ch) "
        "equals the OpenType address arithmetic restated in the harness for every u32 ch (incl. idRangeOffset indexing, modulo-65536 "
        "idDelta, zero entries, 16-bit glyph limit); mappings_fn enumerates exactly what single lookups return (formats 4, 6, 10, 12, "
        "small widths); find_good_cmap_subtable follows the documented preference order over 3 symbolic encoding records; Mac Roman "
        "conversions are mutual inverses for all 256 bytes and all chars; offset_to_index by MIR->SMT; the encoding dispatch of "
        "Font::lookup_glyph_index on a Font built by the real Font::new: Windows Symbol (U+F020..U+F0FF and their single-byte aliases reach the "
        "same glyph) and, thorough, Mac Roman for every char. Format 2 (550-byte subtable, all 256 subHeaderKeys, 3 subheaders and 4 glyphIndexArray entries symbolic): single-byte codes map through subheader 0, two-byte codes through their lead byte's subheader, idDelta modulo 65536 on non-zero entries, sub-arrays outside the table are errors; the parser takes max(key)/8+1 subheaders (format 2 enumeration against single lookups was attempted in the thorough tier: no answer in 2000 s, so it is NOT decided).",
        "Outside: format 2 codes that are not valid in the encoding (only panic-freedom), more segments/groups than stated, Big5 (encoding_rs), OS/2 usFirstCharIndex other than the default, "
        "variation-selector presentation matching, the 0xFFFF idRangeOffset work-around. Oracles are my restatement of the OpenType cmap chapter.",
        "DESIGN.md section 6, C06", TECH_KANI + "; " + TECH_SMT),
    "C13": (
        "Bounded solver verdict. Engine B (MIR->SMT of fvar::default_normalize + Fixed ops + F2Dot14::from(Fixed), regenerated from /repo's MIR "
        "on every run, decided by cvc5/z3): for ALL 32-bit min <= default <= max with span < 32768.0 and ALL 32-bit user values: no panic, "
        "min/default/max map to exactly -1/0/+1, clamping outside the range, degenerate axes map to 0, result within one 2.14 unit of the "
        "exact quotient, monotone non-decreasing (two symbolic runs), sign follows the side of the default; no panic for malformed axis "
        "orders; F2Dot14->Fixed->F2Dot14 identity for all 65536 values; Fixed and F2Dot14 multiplication = floor(a*b/2^frac) and division "
        "(x/0 saturates, x/1.0 = x, no panic) for all operand pairs. Kani: tuple-length check, a concrete axis over every 32-bit user "
        "value through FvarTable::normalize, avar identity map, knot exactness and segment containment for a symbolic knot, axis/segment-map "
        "pairing through FvarTable::normalize with an avar table.",
        "Outside: spans >= 32768.0 (open known finding C13-wide-span), monotonicity and the slope-scaled accuracy bound of the avar step, avar maps "
        "with > 4 records, > 2 axes. The MIR translator's std whitelist (Ord::max/min/clamp, PartialOrd on derived newtypes, wrapping ops, i64::from) "
        "is hand-written and validated per run against native execution on ~180 inputs.",
        "DESIGN.md section 6, C13", TECH_SMT + "; " + TECH_KANI),
    "C01": (
        "Bounded solver verdict (totality: no panic, no failed unwrap, no overflow in the dev profile, no out-of-bounds access, loops bounded by "
        "the buffer) for ARBITRARY bytes, truncated anywhere, handed to: sfnt/TTC reader + provider + table_data (48 B), WOFF header/directory + "
        "uncompressed table_data (88 B), WOFF2 header and directory entry, head/hhea/maxp, hmtx with any counts + metric lookups, name, sbix (1 strike, 2 glyphs, every offset and glyph id), cmap "
        "header + any subtable at any offset + map_glyph (44 B: formats 4/6/10/12), kern format 2 with hostile offsets, fvar header; fvar/avar "
        "normalisation with hostile axis values; Coverage/ClassDef/Anchor with counts 0/1/2; CFF INDEX with hostile offsets; WOFF2 transformed "
        "glyf header with 65535 glyphs and any bbox size; WOFF2 transformed hmtx over an untransformed glyf; item variation data sub-tables with any counts (wordDeltaCount above regionIndexCount, LONG_WORDS) and any row index.",
        "Count fields that size a Vec are concrete per harness (family listed in evidence), so a panic that needs another count is not found. Outside: "
        "buffers longer than stated, zlib/brotli, CFF/CFF2 DICTs and charstrings, SimpleGlyph::read_dep, post names, cmap format 2, subset/instance pipelines, "
        "Font::new. One open known finding (Fixed::neg overflow on fvar spans >= 32768.0).",
        "DESIGN.md section 6, C01", TECH_KANI),
    "C03": (
        "Bounded solver verdict (2-safety, two-call histories against a fresh Font) for Font's own caches - NOT for the layout caches: on a Font "
        "built by the real Font::new over a 5-table provider, lookup_glyph_index(U+25CC, probe) after ANY earlier lookup of U+25CC (presentation x "
        "selector in {None, VS01, VS02, VS15, VS16}) equals the result on a fresh Font (three probes; this finds the GlyphCache defect listed as an "
        "open known finding), and horizontal_advance / vertical_advance / vhea_table / has_embedded_images after any one earlier accessor call "
        "equal the fresh font's answers for every glyph id.",
        "Outside: LayoutCacheData (supported_features / lookups_index are std HashMaps), ReadCache, Font::shape histories, byte-identical output of "
        "subset/instance across runs. The missing variation tuple in the lookup-list cache key is known by reading only and cannot be decided here.",
        "DESIGN.md section 6, C03", TECH_KANI),
    "C07": (
        "Bounded solver verdict for the hmtx compaction step only (through hook H3 on the private subset::create_hmtx_table) - NOT for outlines: for a "
        "source hmtx of 4 glyphs with numberOfHMetrics 1 or 2 (and 3 of 3), all bytes symbolic, and every subset [0, a, b] with a != b, each "
        "retained glyph keeps the advance width and left side bearing HmtxTable::metric reports for its old id, including ids beyond "
        "numberOfHMetrics whose lsb comes from the trailing array; GlyfRecord::is_composite (the test the glyf subsetter uses to decide which "
        "records carry components) is true for every negative contour count.",
        "Outside: contours, composite closure and renumbering (GlyfTable::subset: no answer in 10 min), CFF/CFF2/Type1-to-CID, subroutines, WOFF/WOFF2 "
        "sources, the end-to-end pipeline (40 min, no answer). Thin claim: only one of the five anchored mechanisms.",
        "DESIGN.md section 6, C07", TECH_KANI),
    "C04": (
        "Bounded solver verdict for the matching primitives that do not pass through the layout cache - NOT for lookup application: Coverage "
        "formats 1/2 and ClassDef formats 1/2 parsed from symbolic bytes return the specified index/class for every u16 glyph; "
        "MatchType::match_glyph implements the OpenType lookup-flag rule (ignore bases/ligatures/marks, mark attachment type, mark filtering "
        "set) for every flag word over a GDEF with symbolic glyph classes, attachment classes and filtering set; MatchContext::matches "
        "(by glyph id, by class, by coverage; backtrack/input/lookahead 1-1-1, 2-0-1, 0-2-2) equals a reference matcher over non-skipped glyphs "
        "for every run of 5 glyphs, position and flag; find_prev/next/nth/first and Ligature::matches likewise; FeatureVariations: first matching record wins, a condition set is a conjunction, axis ranges are inclusive at both ends, unknown condition formats and missing axes never match (2 records, 2 conditions, 2 axes, every 2.14 value); GSUB subtables parsed from bytes with the coverage cache stubbed to an uncached read: SingleSubst formats 1 (delta modulo 65536) and 2, MultipleSubst, AlternateSubst and LigatureSubst return the sequence / alternates / ligature set of the glyph's coverage index with every glyph value symbolic; Context format 1 tries the rules of the glyph's rule set in font order and returns the lookup records of the first rule that matches; ReverseChainSingleSubst substitutes a covered glyph between matching backtrack/lookahead glyphs; through hook H9 the application kernels singlesubst (first covering subtable wins, Direct origin, vertical-alternate flag under vert/vrt2), alternatesubst (requested alternate or no change) and ligature selection (first ligature of the set, in font order, whose components match).",
        "Outside (the larger part of the property; apply_subst_context is reached through hook H9 only with an empty lookup-record list, where it must report the span from the first to the last matched input glyph including skipped glyphs - run of 4 glyphs, symbolic classes and flag): lookup ordering, per-type application loops, nested lookups, extension/reverse-chaining lookups, "
        "feature variations, ligature application - all behind LayoutCache (std HashMap) or Vec<RawGlyph> surgery. Seeded changes in those areas are missed.",
        "DESIGN.md section 6, C04", TECH_KANI),
    "C05": (
        "Bounded solver verdict for value-record, anchor and kern decoding - NOT for GPOS lookup application or pen-position resolution: every "
        "valueFormat 0..0xFF decodes into the right Adjust members, consumes 2 bytes per set bit and ValueFormat::size equals that stride; "
        "VariationIndex device tables are followed at any offset inside the parent table; Anchor formats 1-3; kern format 0 (2 and 3 sorted "
        "pairs) equals a linear scan for every glyph pair; kern format 2 class lookup returns the cell at leftClass+rightClass or None; GPOS subtables parsed from bytes with the coverage/classdef cache stubbed to an uncached read: SinglePos formats 1/2, PairPos format 1 (pair sets searched by second glyph) and format 2 (2x2 class matrix cell of (class1(glyph1), class2(glyph2)) for covered first glyphs), CursivePos (exit anchor of the first, entry anchor of the second glyph, NULL offsets = no connection), MarkBasePos (base anchor of the mark's class + the mark's own anchor; NULL base anchor = none), for every glyph id, class value, anchor and value field and every query pair; through hook H8 the application kernels of gpos.rs: the candidate (base, mark) and (mark, mark) pairs offered over runs of 4 (mark-to-base) and 3 (mark-to-mark; ligature flags in the thorough tier) glyphs for every mark pattern and ligature component number (a mark is only offered the nearest preceding non-mark; mark-to-mark only inside one run of marks and only for the same component or a ligature), cursivepos (the FIRST glyph is attached to the second with the lookup's RIGHT_TO_LEFT bit, entry anchor of the second and exit anchor of the first), pairpos (value record 1 -> first glyph, 2 -> second; xAdvance into kerning, placements into a Distance) and markligpos (the component record is chosen by the MARK's ligature component number; out-of-range components attach nothing).",
        "Outside: gpos::apply / gpos_apply_lookup themselves (the lookup cache: Rc'd enum, 20 min no answer), lookup-flag filtering of pairs (find_first/find_next are decided under C04), context positioning, variation deltas in Adjust::apply, cursive chains and pen arithmetic in glyph_positions (14 GB out of memory). Stubs: ReadScope::read_cache -> uncached read, RandomState::new -> constant (modules c05_pos, c05_apply). "
        "The kern format 2 oracle follows the crate's documented reading of the Microsoft text; Apple/HarfBuzz add the array offset into the left class values (DESIGN.md section 7).",
        "DESIGN.md section 6, C05", TECH_KANI),
    "C16": (
        "Bounded solver verdict for the contour walk only: for one contour of 1, 2, 3 and 4 points and two contours of 1+2 points, every on/off-curve "
        "pattern, the command list delivered to a recording OutlineSink through GlyfTable::visit equals an independent statement of the TrueType "
        "rule (start point choice, implied midpoints incl. across the closing edge, one move_to and one close per contour); 2 points with every "
        "i16 coordinate in the thorough tier; the component transform: a stored uniform, x/y or 2x2 scale with EVERY 2.14 entry converts to the matrix that maps "
        "(1,0) to (xscale, scale01) and (0,1) to (scale10, yscale), the convention of the glyf chapter (this found the transposed matrix, repaired); the packed decoder SimpleGlyph::read_dep only for ONE point stored as x = same-as-previous, y = short vector under a REPEAT flag with count 0 (count byte consumed, sign bit, on-curve bit).",
        "Outside: the composite walk itself (offsets, nesting limit, point-number placement: five variants passed 8.8 GB after 19 min), the packed flag/coordinate decoder beyond that one shape (1-3 points with short or word deltas on both axes: no answer in 10 min), > 4 points in the walk. "
        "Assumption: pathfinder_simd built with pf-no-simd (scalar Vector2F).",
        "DESIGN.md section 6, C16", TECH_KANI),
    "C09": (
        "Bounded solver verdict for the arithmetic every written font is assembled from - NOT for FontBuilder itself: table_checksum == sum of "
        "big-endian words mod 2^32 (0, 1, 3, 4 words, all byte values); the loca writer round-trips through the loca reader for 3 arbitrary "
        "u32 offsets in both formats and REFUSES odd or > 131070 offsets in the short format instead of truncating; HeadTable::write leaves "
        "checkSumAdjustment zero and its placeholder patches exactly bytes 8..12; by MIR->SMT for all inputs: long_align/word_align return the "
        "least multiple >= n (and the overflow-checked add panics rather than shortens for n near usize::MAX), max_power_of_2 gives floor(log2 n) "
        "for every u16, i.e. searchRange/entrySelector are the spec values.",
        "Outside (and the larger part of the property): FontBuilder directory order/offsets/padding/whole-file adjustment (BTreeMap: 25 min no answer), "
        "the glyf writer, CFF offsets, cross-table consistency of subsets/instances/WOFF2 reconstructions. This is the thinnest claim; see DESIGN.md section 9.",
        "DESIGN.md section 6, C09", TECH_KANI + "; " + TECH_SMT),
    "C15": (
        "Bounded solver verdict: bytes -> read -> write is byte-exact (up to documented normalisations) for every head (54 B), hhea (36 B), "
        "maxp 1.0/0.5, cvt (0-3 values), name format 0 and format 1 (2 records, 1 lang tag, stringOffset placeholder back-patched) table that "
        "parses; value -> write -> read identity for TableRecord/LongHorMetric/IndexToLocFormat; placeholders: exact fill lands at the reserved "
        "offset, over-filling a reservation in one or several writes returns PlaceholderMismatch and touches nothing outside; CFF DICT operands "
        "through hook H2: EVERY i32 integer and offset operand survives write->read with the shortest legal encoding and exact consumption, and "
        "every integer lead byte decodes per the DICT table; the INDEX offset-array serialiser (hook H5) picks the smallest offSize that holds "
        "the last offset, stores every offset big-endian and refuses offsets beyond 32 bits; post header byte-exact; offset_size thresholds by "
        "MIR->SMT for all usize; CFF custom charsets (formats 0/1/2, 5 glyphs) and FDSelect (formats 0/3): bytes -> read -> write reproduces the bytes consumed; Index::calculate_size equals the size of the INDEX the serialiser then writes for one or two objects of any size up to 70000 bytes (offSize boundaries 255/256, 65535/65536); a composite glyph of two components (2x2 transform on the second) written from a value has the specified layout with the instruction block iff ANY component carries WE_HAVE_INSTRUCTIONS, and the reader returns components, transform and instructions of such a record.",
        "Outside: whole CFF/CFF2 tables, DICT writers, owned (Vec-backed) charsets, Real operands, OS/2 and the owned cmap writer (CBMC out of memory), post names, simple glyph records, item variation "
        "store (its writer defect is recorded by reading + native run only, DESIGN.md section 7), HmtxTable::write (CBMC out of memory).",
        "DESIGN.md section 6, C15", TECH_KANI + "; " + TECH_SMT),
    "C10": (
        "Bounded solver verdict: for an sfnt with 2 table records (3 thorough), a TTC with 2 members at symbolic offsets, and a WOFF file "
        "with 2 uncompressed directory entries (3 thorough), with every byte other than the record counts symbolic, table_data(tag) for "
        "any u32 tag returns byte-for-byte the window the directory names (compared at a symbolic index), Ok(None)/has_table()==false for "
        "absent tags, an error for windows outside the file, table_tags() lists the directory in order, sfnt_version/flavor are the "
        "stored ones, a member index beyond the collection is BadIndex; FontData::read selects the container by magic (one harness per "
        "known magic) and every unknown magic is rejected by each container reader.",
        "Outside: zlib-compressed WOFF entries and both flate2 back ends (decompressor not encoded), WOFF metadata, directories with duplicate "
        "tags, FontData::read with a symbolic magic (the WOFF2 arm drags brotli into the formula), DynamicFontTableProvider.",
        "DESIGN.md section 6, C10", TECH_KANI),
    "C11": (
        "Bounded solver verdict on the DECOMPRESSED streams: 255UInt16 and UIntBase128 decode per the W3C definitions incl. all rejection "
        "rules (any 4/6 bytes, any truncation); the table directory entry decoder maps every flag byte to the right tag (63-entry known-tag "
        "table restated) and transformLength presence; the transformed-glyf decoder yields, for 1 glyph x 1 contour x 1 point and EVERY flag "
        "byte and data byte of the 1-, 2- and 3-byte triplet classes (4-byte: thorough), exactly the dx/dy/on-curve the W3C triplet "
        "arithmetic prescribes (this covers all 128 COORD_LUT rows); 2 points: cumulative coordinates, endPts, instructions, explicit vs "
        "computed bounding box; transformed hmtx reconstruction for flags 0-3 with 2-3 glyphs; a one-component composite (a two-component harness exists in the thorough tier but gave no answer in 2400 s: not decided here; the shared component reader is decided under C15).",
        "Outside: brotli, Woff2Font::read, collections, the eager provider (HashMap), loca reconstruction, composites of more than one component in the quick tier, > 2 points, > 1 contour. "
        "One open known finding (hmtx tail rebuilt from the wrong glyphs) is listed in known_findings.json.",
        "DESIGN.md section 6, C11", TECH_KANI),
})

CLAIMS.update({
    "C12": (
        "Bounded solver verdict for the decoding and scalar kernels the instancer is assembled from (through hook H7) - NOT for variations::instance, the "
        "accumulation of deltas over a glyph's points, phantom points, HVAR/MVAR or the item variation store evaluation: calculate_scalar for EVERY 2.14 "
        "instance/start/peak/end of a well-formed region is 1 for an axis with zero peak, 0 outside [start, end], 1 at the peak and otherwise the "
        "specification's quotient (instance-start)/(peak-start) or (end-instance)/(end-peak) (thorough: that value is the correctly rounded quotient, in exact "
        "f64 arithmetic); do_infer (inferred delta of an un-referenced point, one coordinate) for EVERY i16 coordinate and delta follows the gvar rule: "
        "coinciding neighbours -> common delta or 0, target outside the neighbours' span -> the delta of the nearer neighbour, inside -> linear interpolation; "
        "DeltaSetIndexMap::entry for formats 0 and 1, every entryFormat byte, every index (clamped to the last entry), short buffers refused; packed point "
        "numbers (one/two-byte count, byte/word runs, 'all points') and packed deltas (zero/int8/int16 runs, two runs) decode to the specified values "
        "with exact consumption; HVAR glyph -> delta-set mapping (hook H10): the index map entry of the glyph id, the LAST entry for ids at or beyond mapCount, no explicit entry without a map.",
        "Thin claim. Outside: everything that iterates over a glyph or a font (variations::instance, glyf/variation.rs apart from do_infer, IUP contour walk, phantom points, "
        "HVAR/MVAR wrappers), ItemVariationStore::adjustment and TupleVariationStore parsing (CBMC out of memory at 14 GB), cvar, shared point numbers, CFF2 blend (decided under C18).",
        "DESIGN.md section 6, C12", TECH_KANI),
    "C18": (
        "Bounded solver verdict for the per-operator layer of the Type 2 machine - NOT for the charstring interpreter: through hook H6 the crate's own "
        "CharStringParser (CharStringVisitor::visit dispatch + parse_* method, real ArgumentsStack and Builder) executes ONE path operator on an operand "
        "stack of concrete length (1..13, the legal patterns of each of rmoveto/hmoveto/vmoveto, rlineto/hlineto/vlineto, rrcurveto, rcurveline, "
        "rlinecurve, hhcurveto, vvcurveto, hvcurveto, vhcurveto, flex, hflex, hflex1, flex1, endchar) with EVERY operand and pen coordinate an integer in "
        "-128..127 and every move-to state; the commands delivered to a recording sink, the pen and the open/closed-subpath state equal an "
        "independent restatement of Adobe TN5177 in exact integer arithmetic (incl. alternation and the optional last operand of hv/vhcurveto, the "
        "leading operand of hh/vvcurveto, flex1's choice of axis incl. ties, close-before-moveto, endchar closing); illegal operand counts and "
        "drawing before any moveto are errors. Number encodings: every lead byte and operand byte of the 1-, 2-byte and 16.16 forms decodes per "
        "TN5177 table 3; the CFF2->CFF operand writer emits the shortest form and round-trips for every i16 and every 16.16 value. Subroutine bias "
        "107/1131/32768 and biased index conversion for every i32 operand and every INDEX size. CFF2 blend: for k = 0, 1, 2 regions and n = 1, 2 "
        "values, result i = default i + sum_j scalar_j * delta_ij with non-applicable regions skipped, lower stack untouched. The tables seac and CID-keyed fonts resolve glyphs through: custom charset formats 0/1/2 (5 glyphs, every SID and range): glyph -> id and id -> first glyph vs the TN5176 expansion (found and repaired a glyph id overflow), ISOAdobe, FDSelect formats 0 and 3 for every glyph id.",
        "Outside (most of the property): the interpreter loop - operator decoding inside a program, width prefix, stem counting and hint-mask length, callsubr/callgsubr "
        "and the choice of the local INDEX per FD, nesting limit, seac, vsindex/blend argument handling - CBMC does not finish on it even for a fully concrete program. "
        "Operands are small integers (fractional 16.16 operands and magnitudes above 127 are outside), operand stacks longer than 13, bounding box. One genuine defect found and repaired (blend with zero regions).",
        "DESIGN.md section 6, C18", TECH_KANI),
})

CLAIMS.update({
    "C17": (
        "Bounded solver verdict for the run structure around the sort - NOT for std's sort, NOT for the combining-class table, NOT for the decompositions: "
        "with core::slice::sort::stable::sort replaced by an insertion sort by the same comparison (the documented contract of sort_by_key: a stable sort) and the "
        "third-party canonical-combining-class table replaced by the Unicode classes of an 8-character alphabet (2 bases, marks of classes 230, 230, 220, 33, 27, 103), "
        "scripts::preprocess_text on every 3-character text over that alphabet returns, for the script tags latn, syrc and an unknown tag, the input with each maximal "
        "run of combining marks sorted stably by the crate's modified combining class, every character of class 'not reordered' in place and nothing moved across it "
        "(compared with a loop-free reference); Myanmar text is returned unchanged. (An Arabic harness - permutation, bases fixed, marks inside their run, shadda first - exists in the thorough tier "
        "but gave no answer in 2400 s: Arabic is NOT decided.)",
        "Thin claim. Stubs (listed in evidence): the std stable sort and the class table. Outside: texts longer than 3 characters, characters outside the alphabet, the "
        "Thai/Lao SARA AM split and PHINTHU rule, Indic and Khmer vowel splits, Bengali ya-nukta, Kannada ra-halant-joiner, dotted-circle insertion (all Vec::insert on symbolic "
        "conditions, not attempted), the exact AMTRA order for Arabic. A symbolic script tag is not decidable here (every script's preprocessing enters the formula), hence one harness per tag.",
        "DESIGN.md section 6, C17", TECH_KANI),
})

NOT_APPLICABLE = {
    "C02": "Font::shape, gsub::apply, gpos::apply and every script engine sit behind LayoutCache (std HashMap) and Vec<RawGlyph> surgery (10-40 min, no answer); GlyphLayout::glyph_positions on a 2-glyph run with one symbolic attachment index ran out of 16 GB in every variant tried; what remains decidable (replace_missing_glyphs clamp; the matching primitives, decided under C04) is one of five anchored mechanisms and says nothing about totality of shaping (DESIGN.md section 9)",
    "C08": "cmap subset builder sits behind BTreeMap<Character,u16> (MappingsToKeep): pipeline 40 min and hooked kernel 25 min/10 GB gave no solver answer; a hook that bypasses the map would no longer execute the real code (DESIGN.md section 6, C08)",
    "C17": "every clause is a relation on the output of std's stable sort over symbolic keys; preprocess_text on 2 and 3 symbolic chars gave no answer in 15 min each, and sort_by_modified_combining_class called directly on 3 characters of the Thai block, and preprocess_text(THAI) on 3 such characters, gave none in 25 min each (symbolic execution of core::slice::sort never ends); Engine B cannot take loops (DESIGN.md section 6, C17)",
}

PENDING_REASON = "check not built yet in this round (planned, see DESIGN.md section 6); not claimed until its harnesses exist and pass on the unchanged tree"

ALL = ["C%02d" % i for i in range(1, 19)]


def main():
    checks = []
    for pid in ALL:
        if pid not in CLAIMS:
            continue
        text, note, ref, tech = CLAIMS[pid]
        checks.append({
            "property_id": pid,
            "quick_cmd": "./check %s --tier quick" % pid,
            "thorough_cmd": "./check %s --tier thorough" % pid,
            "evidence_file": "/verif/evidence/%s.json" % pid,
            "replay_cmd_template": "./check --replay {path}",
            "engine": "kani+mir2smt",
            "level_claimed": {"category": "model_checking", "text": text, "design_ref": ref},
            "level_note": note,
            "technique": tech,
        })
    na = []
    for pid in ALL:
        if pid in CLAIMS:
            continue
        na.append({"property_id": pid, "reason": NOT_APPLICABLE.get(pid, PENDING_REASON)})
    try:
        commits = subprocess.run(["git", "-C", "/repo", "log", "--format=%H %s"], stdout=subprocess.PIPE).stdout.decode().split("\n")
        hook_commits = [c.split(" ")[0] for c in commits if c[41:].startswith("verif hook")]
    except Exception:
        hook_commits = []
    manifest = {
        "version": 1,
        "setup_cmd": "./setup.sh",
        "hooks": {
            "guard": "allsorts_verif",
            "enable": "cfg(any(kani, allsorts_verif)): `kani` is set by the Kani compiler for every harness build and for `cargo kani playback`; native replay builds may pass RUSTFLAGS='--cfg allsorts_verif'. Neither is set by a normal build or by the test suite.",
            "baseline_off_cmd": "/verif/tools/baseline.sh",
            "source_commits": hook_commits,
            "add_only": True,
        },
        "engines": [
            {"name": "kani", "path": "/verif/kani", "serves_properties": sorted(CLAIMS),
             "kind_free_text": "Kani 0.68 / CBMC 6.11 proof harnesses, path dependency on /repo (rebuilt from the working tree on every run)"},
            {"name": "mir2smt", "path": "/verif/lib", "serves_properties": [p for p in ("C06", "C09", "C13", "C14", "C15") if p in CLAIMS],
             "kind_free_text": "nightly MIR dump of /repo -> SSA -> SMT-LIB2 (Int encoding with explicit wrap), cvc5 + z3 5.1, translator validated against native execution per run"},
            {"name": "replay", "path": "/verif/lib/driver.py", "serves_properties": sorted(CLAIMS),
             "kind_free_text": "Kani concrete playback unit tests run natively against /repo (dev and release profile) before any VIOLATION is printed"},
        ],
        "checks": checks,
        "not_applicable": na,
        "notes": "All verdicts are bounded (see evidence 'bounds'/'outside_bounds'). Exit 0/1/2 as in DESIGN.md section 3. known_findings.json lists genuine defects: 'open' entries print KNOWN-FINDING, 'fixed' entries suppress nothing.",
    }
    json.dump(manifest, open(os.path.join(VERIF, "MANIFEST.json"), "w"), indent=1)
    print("wrote MANIFEST.json: %d checks, %d not applicable" % (len(checks), len(na)))


if __name__ == "__main__":
    main()
