#!/usr/bin/env python3
"""Confirm a seeded change produced by a sub-agent, in a scratch worktree (never /repo):

  seed_verify.py <worktree> <seed-dir> <seed-id>

1. demo passes on the unchanged worktree, 2. patch applies and the crate builds,
3. demo fails with the patch, 4. the repository's 688 stable tests still pass with the
patch.  On success the seed is copied to /verif/seeded/<seed-id>/ with a meta.json that
records what was run here.
"""
import json
import os
import re
import shutil
import subprocess
import sys

wt, seed, sid = sys.argv[1], sys.argv[2], sys.argv[3]
env = dict(os.environ, CARGO_NET_OFFLINE="true", CARGO_TARGET_DIR=os.path.join(wt, "target"))
env.pop("RUSTFLAGS", None)


def run(cmd, **kw):
    p = subprocess.run(cmd, cwd=wt, env=env, stdout=subprocess.PIPE, stderr=subprocess.STDOUT, **kw)
    return p.returncode, p.stdout.decode(errors="replace")


def clean():
    run(["git", "checkout", "--", "."])
    for f in os.listdir(os.path.join(wt, "tests")):
        if f.startswith("seed_demo"):
            os.remove(os.path.join(wt, "tests", f))


def demo():
    rc, out = run(["cargo", "test", "--offline", "--test", "seed_demo_x", "--", "--test-threads", "4"])
    m = re.findall(r"test result: (\w+)\. (\d+) passed; (\d+) failed", out)
    return rc, m, out


clean()
# bring the worktree to /repo's HEAD so that patches are confirmed against the current tree
head = subprocess.run(["git", "-C", "/repo", "rev-parse", "HEAD"], stdout=subprocess.PIPE).stdout.decode().strip()
run(["git", "checkout", "-q", "--detach", head])
shutil.copyfile(os.path.join(seed, "demo.rs"), os.path.join(wt, "tests", "seed_demo_x.rs"))
rc0, m0, out0 = demo()
ok_without = rc0 == 0 and m0 and all(int(x[2]) == 0 for x in m0)
print("demo without change:", "PASS" if ok_without else "FAIL", m0)
rc, out = run(["git", "apply", os.path.join(seed, "patch.diff")])
if rc != 0:
    print("patch does not apply:", out)
    clean()
    sys.exit(1)
rc1, m1, out1 = demo()
fails_with = rc1 != 0 and ("test result: FAILED" in out1 or "panicked" in out1 or "SIGABRT" in out1 or "signal" in out1)
compile_err = "error: could not compile" in out1
print("demo with change:", "FAIL(as wanted)" if fails_with and not compile_err else "UNEXPECTED", m1)
# suite with the change (demo removed so it does not count)
os.remove(os.path.join(wt, "tests", "seed_demo_x.rs"))
rc2, out2 = run(["cargo", "test", "--workspace", "--no-fail-fast", "--offline", "--", "--test-threads", "8"])
okset = set(re.findall(r"^test (\S+) \.\.\. ok$", out2, re.M))
base = json.load(open("/root/.vp/BASELINE.json"))["stable_pass"]
missing = []
for b in base:
    parts = b.split("::")
    if not ({"::".join(parts[1:]), "::".join(parts[2:])} & okset):
        missing.append(b)
print("suite with change: %d/%d stable tests pass" % (len(base) - len(missing), len(base)), missing[:5])
diff = open(os.path.join(seed, "patch.diff")).read()
clean()
good = ok_without and fails_with and not compile_err and not missing
if good:
    dst = os.path.join("/verif/seeded", sid)
    os.makedirs(dst, exist_ok=True)
    shutil.copyfile(os.path.join(seed, "patch.diff"), os.path.join(dst, "patch.diff"))
    shutil.copyfile(os.path.join(seed, "demo.rs"), os.path.join(dst, "demo.rs"))
    meta = {}
    try:
        meta = json.load(open(os.path.join(seed, "meta.json")))
    except Exception:
        pass
    fail_line = ""
    fm = re.search(r"(panicked at[^\n]*\n[^\n]*)", out1)
    if fm:
        fail_line = fm.group(1)
    json.dump({
        "seed": sid,
        "property": meta.get("property"),
        "summary": meta.get("summary"),
        "needs": meta.get("needs"),
        "confirmed_by_me": {
            "worktree_head": head,
            "demo_without_change": "pass %s" % (m0,),
            "demo_with_change": "fail %s | %s" % (m1, fail_line),
            "suite_with_change": "all %d stable baseline tests pass (cargo test --workspace --no-fail-fast --offline)" % len(base),
            "commands": ["git apply patch.diff", "cargo test --offline --test seed_demo_x", "cargo test --workspace --no-fail-fast --offline"],
        },
        "files_touched": re.findall(r"^\+\+\+ b/(\S+)", diff, re.M),
    }, open(os.path.join(dst, "meta.json"), "w"), indent=1)
    print("KEPT", dst)
else:
    print("REJECTED", sid)
sys.exit(0 if good else 1)
