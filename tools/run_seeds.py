#!/usr/bin/env python3
"""Run the registered quick checks against seeded changes, one at a time:

    run_seeds.py [--tier quick] <seed-id> [<seed-id> ...]   (or 'all')

For each seed: git -C /repo apply seeded/<id>/patch.diff ; ./check <PROP> ; git -C /repo checkout -- .
The outcome (exit code, VIOLATION lines, which harnesses failed) is written to
seeded/<id>/result.json. /repo must be clean before and is clean afterwards.
Nothing else may run checks while this is running (the patch is applied to /repo itself).
"""
import json
import os
import re
import subprocess
import sys
import time

VERIF = os.path.dirname(os.path.dirname(os.path.abspath(__file__)))
SEEDED = os.path.join(VERIF, "seeded")


def sh(cmd, **kw):
    return subprocess.run(cmd, stdout=subprocess.PIPE, stderr=subprocess.STDOUT, **kw)


def main():
    args = sys.argv[1:]
    tier = "quick"
    props_override = None
    if args and args[0] == "--tier":
        tier = args[1]
        args = args[2:]
    if args and args[0] == "--props":
        props_override = args[1].split(",")
        args = args[2:]
    ids = sorted(os.listdir(SEEDED)) if args == ["all"] else args
    for sid in ids:
        d = os.path.join(SEEDED, sid)
        meta = json.load(open(os.path.join(d, "meta.json")))
        props = props_override or meta.get("check_with") or [meta["property"]]
        dirty = sh(["git", "-C", "/repo", "status", "--porcelain", "--untracked-files=no"]).stdout.strip()
        if dirty:
            print("refusing: /repo is not clean")
            sys.exit(2)
        r = sh(["git", "-C", "/repo", "apply", os.path.join(d, "patch.diff")])
        if r.returncode != 0:
            print(sid, "PATCH DOES NOT APPLY", r.stdout.decode()[:300])
            continue
        result = {"seed": sid, "tier": tier, "runs": []}
        try:
            for prop in props:
                t0 = time.time()
                p = sh([os.path.join(VERIF, "check"), prop, "--tier", tier], cwd=VERIF)
                out = p.stdout.decode(errors="replace")
                viol = re.findall(r"^VIOLATION .*$", out, re.M)
                harn = sorted(set(re.findall(r"replay=\S*/([a-z0-9_]+)__", out)))
                incon = re.findall(r"^(?:INCONCLUSIVE|MACHINERY).*$", out, re.M)
                result["runs"].append({"property": prop, "exit": p.returncode, "violations": viol,
                                       "failing_harnesses": harn, "inconclusive": incon[:10],
                                       "wall_s": round(time.time() - t0)})
                print(sid, prop, "exit", p.returncode, "harnesses", harn, "incon", len(incon), "%ds" % (time.time() - t0), flush=True)
        finally:
            sh(["git", "-C", "/repo", "checkout", "--", "."])
        result["detected"] = any(r["exit"] == 1 for r in result["runs"])
        json.dump(result, open(os.path.join(d, "result.json"), "w"), indent=1)


if __name__ == "__main__":
    main()
