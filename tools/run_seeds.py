#!/usr/bin/env python3
"""Run the checks against seeded changes.

    run_seeds.py [--tier quick] [--par N] [--props C01,C14] [--in-repo] <seed-id>... | all

Default mode: each seed gets its own scratch worktree of /repo's HEAD under /tmp/seedrun/,
the patch is applied there and the check is pointed at it with VERIF_REPO / VERIF_BUILD
(so /repo is never touched and several seeds can run at once); worktree and build output
are removed afterwards. With --in-repo the patch is applied to /repo itself
(git -C /repo apply ... ; ./check ... ; git -C /repo checkout -- .), one seed at a time.
The outcome is written to seeded/<id>/result.json.
"""
import json
import os
import re
import shutil
import subprocess
import sys
import time
from concurrent.futures import ThreadPoolExecutor

VERIF = os.path.dirname(os.path.dirname(os.path.abspath(__file__)))
SEEDED = os.path.join(VERIF, "seeded")
ROOT = "/tmp/seedrun"


def sh(cmd, **kw):
    return subprocess.run(cmd, stdout=subprocess.PIPE, stderr=subprocess.STDOUT, **kw)


def run_one(sid, tier, props_override, in_repo, jobs):
    d = os.path.join(SEEDED, sid)
    meta = json.load(open(os.path.join(d, "meta.json")))
    props = props_override or meta.get("check_with") or [meta["property"]]
    env = dict(os.environ)
    if in_repo:
        repo = "/repo"
    else:
        repo = os.path.join(ROOT, sid)
        build = os.path.join(ROOT, sid + ".build")
        sh(["git", "-C", "/repo", "worktree", "remove", "--force", repo])
        shutil.rmtree(repo, ignore_errors=True)
        shutil.rmtree(build, ignore_errors=True)
        os.makedirs(ROOT, exist_ok=True)
        r = sh(["git", "-C", "/repo", "worktree", "add", "--detach", repo, "HEAD"])
        if r.returncode != 0:
            return {"seed": sid, "error": "worktree: " + r.stdout.decode()[:300]}
        if not os.path.exists(os.path.join(repo, "Cargo.lock")):
            shutil.copyfile("/repo/Cargo.lock", os.path.join(repo, "Cargo.lock"))   # not tracked by git
        env["VERIF_REPO"] = repo
        env["VERIF_BUILD"] = build
    result = {"seed": sid, "tier": tier, "runs": [], "mode": "in-repo" if in_repo else "scratch worktree via VERIF_REPO"}
    try:
        r = sh(["git", "-C", repo, "apply", os.path.join(d, "patch.diff")])
        if r.returncode != 0:
            result["error"] = "patch does not apply: " + r.stdout.decode()[:300]
            print(sid, "PATCH DOES NOT APPLY", flush=True)
            return result
        for prop in props:
            t0 = time.time()
            cmd = [os.path.join(VERIF, "check"), prop, "--tier", tier]
            if jobs:
                cmd += ["--jobs", str(jobs)]
            p = sh(cmd, cwd=VERIF, env=env)
            out = p.stdout.decode(errors="replace")
            viol = re.findall(r"^VIOLATION .*$", out, re.M)
            harn = sorted(set(re.findall(r"replay=\S*/([a-z0-9_]+?)(?:__[0-9a-f]{10})?\.json", out)))
            incon = re.findall(r"^(?:INCONCLUSIVE|MACHINERY).*$", out, re.M)
            result["runs"].append({"property": prop, "exit": p.returncode, "violations": len(viol),
                                   "failing_harnesses": harn, "inconclusive": [x[:200] for x in incon[:10]],
                                   "summary": (re.findall(r"^SUMMARY.*$", out, re.M) or [""])[-1],
                                   "wall_s": round(time.time() - t0)})
            print(sid, prop, "exit", p.returncode, "harnesses", harn, "incon", len(incon), "%ds" % (time.time() - t0), flush=True)
    finally:
        if in_repo:
            sh(["git", "-C", "/repo", "checkout", "--", "."])
        else:
            sh(["git", "-C", "/repo", "worktree", "remove", "--force", repo])
            shutil.rmtree(repo, ignore_errors=True)
            shutil.rmtree(os.path.join(ROOT, sid + ".build"), ignore_errors=True)
    result["detected"] = any(r["exit"] == 1 for r in result["runs"])
    json.dump(result, open(os.path.join(d, "result.json"), "w"), indent=1)
    return result


def main():
    args = sys.argv[1:]
    tier, par, props, in_repo, jobs = "quick", 3, None, False, 5
    while args and args[0].startswith("--"):
        if args[0] == "--tier":
            tier = args[1]; args = args[2:]
        elif args[0] == "--par":
            par = int(args[1]); args = args[2:]
        elif args[0] == "--props":
            props = args[1].split(","); args = args[2:]
        elif args[0] == "--jobs":
            jobs = int(args[1]); args = args[2:]
        elif args[0] == "--in-repo":
            in_repo = True; par = 1; args = args[1:]
        else:
            break
    ids = sorted(os.listdir(SEEDED)) if args == ["all"] else args
    if in_repo:
        dirty = sh(["git", "-C", "/repo", "status", "--porcelain", "--untracked-files=no"]).stdout.strip()
        if dirty:
            print("refusing: /repo is not clean")
            sys.exit(2)
    with ThreadPoolExecutor(max_workers=par) as ex:
        results = list(ex.map(lambda s: run_one(s, tier, props, in_repo, jobs), ids))
    for r in results:
        print(r["seed"], "DETECTED" if r.get("detected") else "missed", [(x["property"], x["exit"], x["failing_harnesses"]) for x in r.get("runs", [])], r.get("error", ""))


if __name__ == "__main__":
    main()
