#!/bin/sh
# Runs the repository's own test suite with the verification guard OFF (no
# --cfg allsorts_verif, no --cfg kani) and compares the passing set with
# /root/.vp/BASELINE.json (688 stable tests). Exit 0 iff every stable test passes.
cd /repo || exit 2
unset RUSTFLAGS
export CARGO_NET_OFFLINE=true
OUT=$(mktemp)
cargo test --workspace --no-fail-fast --offline -- --test-threads 8 >"$OUT" 2>&1
python3 - "$OUT" <<'PY'
import json,re,sys
out=open(sys.argv[1],errors='replace').read()
ok=set(re.findall(r'^test (\S+) \.\.\. ok$',out,re.M))
base=json.load(open('/root/.vp/BASELINE.json'))['stable_pass']
# baseline names are crate-qualified: allsorts::<path> (unit tests) or allsorts::<testbin>::<path>
missing=[]
for b in base:
    parts=b.split('::')
    cands={'::'.join(parts[1:]), '::'.join(parts[2:])}
    if not (cands & ok):
        missing.append(b)
print('baseline stable tests: %d, passing now: %d, missing: %d' % (len(base), len(base)-len(missing), len(missing)))
for m in missing[:40]: print('  MISSING', m)
sys.exit(1 if missing else 0)
PY
RC=$?
rm -f "$OUT"
exit $RC
