#!/usr/bin/env python3
"""Print the markdown table of seeded changes for DESIGN.md section 10 from seeded/*/{meta,result}.json."""
import json, os
root = os.path.join(os.path.dirname(os.path.dirname(os.path.abspath(__file__))), "seeded")
why = {
 "c01_b": "post names: Vec of PascalStrings is out of memory at 10 GB (section 6, C01 Out)",
 "c02_a": "C02 not claimed: glyph_positions out of memory",
 "c02_b": "C02 not claimed: gsub_apply_custom behind the layout cache",
 "c03_a": "supported_features cache is a std HashMap (out of reach)",
 "c04_a": "nested lookup application (apply_subst) is behind the layout cache",
 "c05_b": "position_marks inside glyph_positions: out of memory",
 "c10_b": "zlib-compressed WOFF entries are outside the bound",
 "c11_a": "needs a glyph count that is a multiple of 32; harnesses with 32 (and even 0) glyphs do not finish in 10 min",
 "c16_b": "packed flag decoder SimpleGlyph::read_dep: out of memory",
 "c16_r2a": "needs the composite walk with a non-identity transform (out of memory, section 4)",
 "c01_r3a": "an allocation sized by an unvalidated length field is not a failure CBMC reports; zlib entries are outside",
 "c03_r3a": "lookups_index cache is a std HashMap (out of reach)",
 "c04_r3b": "apply_subst (nested lookups) fetches the nested lookup through the lookup cache (out of reach)",
 "c05_r3b": "cursive chains in glyph_positions: out of memory",
 "c09_r3a": "CompositeGlyph::write: bytes -> read -> write of a 2-component record gave no answer in 27 min / 6 GB",
 "c18_r3b": "callsubr bias is chosen inside the interpreter loop (not encoded); only the bias kernel itself is",
 "c10_b": "zlib-compressed WOFF entries are outside the bound",
 "c01_r4a": "post names: Vec of PascalStrings is out of memory at 10 GB (section 6, C01 Out); the two cooperating sites (short read accepted, unchecked index in glyph_name) are both behind it",
 "c05_r4a": "cursive chains in glyph_positions: out of memory",
 "c07_r4a": "Type1-to-CID conversion sits in the CFF subsetting pipeline (out of reach, section 4); only FDSelect lookup itself is decided (c18_fdselect_lookup)",
 "c09_r4b": "format 4 cmap builder (from_mappings) takes the BTreeMap-backed MappingsToKeep: C08 is not applicable",
 "c12_r4b": "the guard sits in glyph_deltas, which iterates over a glyph's tuple variations (TupleVariationStore: out of memory)",
 "c16_r4b": "needs a REPEAT count byte of 255 (a run of 256 points); the packed-decoder harnesses place REPEAT with counts 0 and 1",
 "c18_r4a": "the nesting limit is checked inside the interpreter loop (not encoded)",
 "c06_r4a": "format 2 enumeration (256-iteration loop): the harness aimed at it (c06_format2_mappings_consistent) gives no answer in 600 s (quick) nor 2000 s (thorough)",
}
print("| seed | property | change (needs) | result | by |")
print("|---|---|---|---|---|")
for sid in sorted(os.listdir(root)):
    d = os.path.join(root, sid)
    try:
        m = json.load(open(os.path.join(d, "meta.json")))
    except Exception:
        continue
    r = {}
    if os.path.exists(os.path.join(d, "result.json")):
        r = json.load(open(os.path.join(d, "result.json")))
    det = r.get("detected")
    harn = sorted(set(h for run in r.get("runs", []) for h in run.get("failing_harnesses", [])))
    summ = (m.get("summary") or "").replace("|", "/").replace("\n", " ")
    if len(summ) > 110:
        summ = summ[:107] + "..."
    res = "**caught**" if det else ("missed" if r else "not run")
    by = ", ".join("`%s`" % h for h in harn[:3]) if det else why.get(sid, "")
    print("| %s | %s | %s | %s | %s |" % (sid, m.get("property"), summ, res, by))
